package main

import (
	"fmt"
	"go/types"
	"sort"

	"golang.org/x/tools/go/ssa"
)

// Private slices: a slice variable of a function whose backing arrays were all created by the
// function itself (make / append) and whose header is never handed to anything else (not passed,
// stored, boxed, captured or returned) cannot be reached by a callee; its elements survive calls.
// Some uses (e.g. sort.Sort(items)) do hand the header out: a ghost flag esc|<family> records, per
// path, whether such an instruction has executed, and the frame fact is guarded by it.

type sliceFamily struct {
	id      int
	elem    types.Type
	members []ssa.Value
	memberS map[ssa.Value]bool
	esc     map[ssa.Instruction]bool // instructions that hand a member (or an element address) out
	writes  map[ssa.Instruction]bool // direct element stores and appends
}

func (f *sliceFamily) key() string { return fmt.Sprintf("esc|%d", f.id) }

func (e *Enc) computeSliceFamilies() {
	e.families = nil
	e.escAt = map[ssa.Instruction][]*sliceFamily{}
	fn := e.fn
	parent := map[ssa.Value]ssa.Value{}
	var find func(v ssa.Value) ssa.Value
	find = func(v ssa.Value) ssa.Value {
		p, ok := parent[v]
		if !ok || p == v {
			parent[v] = v
			return v
		}
		r := find(p)
		parent[v] = r
		return r
	}
	union := func(a, b ssa.Value) { parent[find(a)] = find(b) }
	isSlice := func(v ssa.Value) bool {
		_, ok := v.Type().Underlying().(*types.Slice)
		return ok
	}
	isConst := func(v ssa.Value) bool { _, ok := v.(*ssa.Const); return ok }
	okKind := func(v ssa.Value) bool {
		switch x := v.(type) {
		case *ssa.MakeSlice, *ssa.Phi, *ssa.Slice, *ssa.ChangeType:
			return true
		case *ssa.Call:
			if b, ok := x.Call.Value.(*ssa.Builtin); ok && b.Name() == "append" {
				return true
			}
		}
		return false
	}
	var all []ssa.Value
	for _, b := range fn.Blocks {
		for _, in := range b.Instrs {
			v, ok := in.(ssa.Value)
			if !ok || !isSlice(v) || !okKind(v) {
				continue
			}
			all = append(all, v)
			find(v)
			switch x := in.(type) {
			case *ssa.Phi:
				for _, ed := range x.Edges {
					if !isConst(ed) {
						union(v, ed)
					}
				}
			case *ssa.Slice:
				if isSlice(x.X) {
					union(v, x.X)
				} else {
					union(v, x.X) // slicing an array/pointer: the family becomes invalid below
				}
			case *ssa.ChangeType:
				union(v, x.X)
			case *ssa.Call:
				if !isConst(x.Call.Args[0]) {
					union(v, x.Call.Args[0])
				}
			}
		}
	}
	groups := map[ssa.Value][]ssa.Value{}
	for v := range parent {
		groups[find(v)] = append(groups[find(v)], v)
	}
	var roots []ssa.Value
	for r := range groups {
		roots = append(roots, r)
	}
	sort.Slice(roots, func(i, j int) bool { return roots[i].Pos() < roots[j].Pos() || (roots[i].Pos() == roots[j].Pos() && roots[i].Name() < roots[j].Name()) })
	for _, r := range roots {
		ms := groups[r]
		valid := true
		var elem types.Type
		for _, m := range ms {
			if !isSlice(m) || !okKind(m) {
				valid = false
				break
			}
			el := m.Type().Underlying().(*types.Slice).Elem()
			if elem == nil {
				elem = el
			} else if !types.Identical(elem, el) {
				valid = false
				break
			}
		}
		if !valid || elem == nil {
			continue
		}
		sort.Slice(ms, func(i, j int) bool { return ms[i].Name() < ms[j].Name() })
		f := &sliceFamily{id: len(e.families), elem: elem, members: ms, memberS: map[ssa.Value]bool{}, esc: map[ssa.Instruction]bool{}, writes: map[ssa.Instruction]bool{}}
		for _, m := range ms {
			f.memberS[m] = true
		}
		for _, m := range ms {
			refs := m.Referrers()
			if refs == nil {
				continue
			}
			for _, u := range *refs {
				switch x := u.(type) {
				case *ssa.DebugRef, *ssa.Range:
				case *ssa.Phi, *ssa.Slice, *ssa.ChangeType:
					if v, ok := u.(ssa.Value); !ok || !f.memberS[v] {
						f.esc[u] = true
					}
				case *ssa.Index:
				case *ssa.IndexAddr:
					if x.X != m {
						f.esc[u] = true
						break
					}
					if ar := x.Referrers(); ar != nil {
						for _, au := range *ar {
							switch y := au.(type) {
							case *ssa.Store:
								if y.Addr == x && y.Val != x {
									f.writes[au] = true
								} else {
									f.esc[au] = true
								}
							case *ssa.UnOp, *ssa.DebugRef:
							default:
								f.esc[au] = true
							}
						}
					}
				case *ssa.Call:
					if b, ok := x.Call.Value.(*ssa.Builtin); ok {
						switch b.Name() {
						case "len", "cap":
							continue
						case "append":
							if x.Call.Args[0] == m {
								f.writes[u] = true
								if len(x.Call.Args) > 1 && x.Call.Args[1] == m {
									// append(s, s...): reads only
								}
								continue
							}
							if len(x.Call.Args) > 1 && x.Call.Args[1] == m {
								continue // spread source: elements are copied out
							}
						case "copy":
							if x.Call.Args[0] == m {
								f.writes[u] = true
								continue
							}
							if x.Call.Args[1] == m {
								continue
							}
						}
					}
					f.esc[u] = true
				default:
					f.esc[u] = true
				}
			}
		}
		e.families = append(e.families, f)
		for in := range f.esc {
			e.escAt[in] = append(e.escAt[in], f)
		}
	}
}

// noteEscapes is called before an instruction is encoded.
func (e *Enc) noteEscapes(in ssa.Instruction) {
	for _, f := range e.escAt[in] {
		e.heap0Bool(f.key())
		e.cur.heap[f.key()] = True
	}
}

func (e *Enc) heap0Bool(k string) {
	if _, ok := e.heap0[k]; !ok {
		e.heap0[k] = False
	}
}

// privateSliceFrame: elements of private slices are the same in element-heap versions old and nw
// (guarded by the family's escape flag). skip: families written or handed out inside the region
// being summarised (a loop).
func (e *Enc) privateSliceFrame(k string, old, nw Term, skip func(f *sliceFamily) bool) {
	for _, f := range e.families {
		if e.p.elemKey(f.elem) != k {
			continue
		}
		if skip != nil && skip(f) {
			continue
		}
		e.heap0Bool(f.key())
		esc := e.heapGet(e.cur, f.key())
		for _, m := range f.members {
			v, ok := e.vals[m]
			if !ok || v.T.S == "" || v.T.Sort != SSlice || !e.inScope(m) {
				continue
			}
			e.assert(Or(esc, Eq(Select(nw, SliceArr(v.T)), Select(old, SliceArr(v.T)))))
		}
	}
}
