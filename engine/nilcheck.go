package main

import (
	"go/token"
	"go/types"

	"golang.org/x/tools/go/ssa"
)

// Nil dereferences as an obligation class, for pointers that may be nil BY ORIGIN: the result of a package
// function that returns a nil constant on some path (Match*, Peek*, Get, Current, lookups ...), a map lookup, a
// failed comma-ok type assertion, a nil constant, or a phi of such values. Dereferencing such a pointer (field
// access, or calling a pointer-receiver method of the package on it) needs a proof that it is not nil on the
// path. Pointers of any other origin - parameters, fields and elements loaded from the heap, results of library
// calls - are still ASSUMED non-nil when dereferenced (DESIGN 3.4-1, now narrowed to these origins).

func isNilConst(v ssa.Value) bool {
	c, ok := v.(*ssa.Const)
	return ok && c.Value == nil && isPointerLike(c.Type())
}

// ComputeReturnsNil: (function, result index) pairs that may yield a nil pointer, syntactically.
func (p *Prog) ComputeReturnsNil() {
	p.returnsNil = map[*ssa.Function]map[int]bool{}
	changed := true
	for round := 0; changed && round < 20; round++ {
		changed = false
		for _, fn := range p.FuncList {
			for _, b := range fn.Blocks {
				for _, in := range b.Instrs {
					ret, ok := in.(*ssa.Return)
					if !ok {
						continue
					}
					for i, r := range ret.Results {
						if _, isPtr := r.Type().Underlying().(*types.Pointer); !isPtr {
							continue
						}
						if p.returnsNil[fn][i] {
							continue
						}
						if p.valueMayBeNil(r, map[ssa.Value]bool{}) {
							if p.returnsNil[fn] == nil {
								p.returnsNil[fn] = map[int]bool{}
							}
							p.returnsNil[fn][i] = true
							changed = true
						}
					}
				}
			}
		}
	}
}

func (p *Prog) valueMayBeNil(v ssa.Value, seen map[ssa.Value]bool) bool {
	if v == nil || seen[v] {
		return false
	}
	seen[v] = true
	switch x := v.(type) {
	case *ssa.Const:
		return isNilConst(x)
	case *ssa.Phi:
		for _, ed := range x.Edges {
			if p.valueMayBeNil(ed, seen) {
				return true
			}
		}
	case *ssa.Lookup:
		if _, isMap := x.X.Type().Underlying().(*types.Map); isMap && !x.CommaOk {
			return true
		}
	case *ssa.Extract:
		switch t := x.Tuple.(type) {
		case *ssa.Lookup:
			return x.Index == 0
		case *ssa.TypeAssert:
			return x.Index == 0
		case *ssa.Call:
			return p.callMayReturnNil(&t.Call, x.Index)
		}
	case *ssa.Call:
		return p.callMayReturnNil(&x.Call, 0)
	case *ssa.ChangeType:
		return p.valueMayBeNil(x.X, seen)
	}
	return false
}

func (p *Prog) callMayReturnNil(c *ssa.CallCommon, i int) bool {
	if c.IsInvoke() {
		return false
	}
	f, ok := c.Value.(*ssa.Function)
	if !ok {
		return false
	}
	f = unwrapSynthetic(f)
	if f.Blocks == nil || !p.isLocalFn(f) {
		return false
	}
	return p.returnsNil[f][i]
}

// nilDerefObligation: v is about to be dereferenced.
func (e *Enc) nilDerefObligation(v ssa.Value, t Term, pos token.Pos, what string) {
	if e.skipObligations || e.prefix != "" {
		return
	}
	if _, isPtr := v.Type().Underlying().(*types.Pointer); !isPtr {
		return
	}
	if !e.p.valueMayBeNil(v, map[ssa.Value]bool{}) {
		return
	}
	e.oblige("nilderef", what, pos, Ne(t, IntLit(0)), nil, "a pointer that may be nil by origin is not nil where it is dereferenced ("+what+")")
}
