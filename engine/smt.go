package main

import (
	"fmt"
	"strings"
)

// Sort is an SMT-LIB sort expression.
type Sort string

const (
	SInt   Sort = "Int"
	SBool  Sort = "Bool"
	SStr   Sort = "Str"
	SF64   Sort = "F64"
	SSlice Sort = "Slice"
)

// Term is an SMT-LIB term with its sort.
type Term struct {
	S    string
	Sort Sort
}

func (t Term) String() string { return t.S }

func mk(sort Sort, s string) Term { return Term{S: s, Sort: sort} }

func IntLit(n int64) Term {
	if n < 0 {
		return mk(SInt, fmt.Sprintf("(- %d)", -n))
	}
	return mk(SInt, fmt.Sprintf("%d", n))
}

func BigLit(s string) Term {
	if strings.HasPrefix(s, "-") {
		return mk(SInt, "(- "+s[1:]+")")
	}
	return mk(SInt, s)
}

var (
	True  = mk(SBool, "true")
	False = mk(SBool, "false")
)

func BoolLit(b bool) Term {
	if b {
		return True
	}
	return False
}

func App(sort Sort, fn string, args ...Term) Term {
	if len(args) == 0 {
		return mk(sort, fn)
	}
	var sb strings.Builder
	sb.WriteString("(")
	sb.WriteString(fn)
	for _, a := range args {
		sb.WriteString(" ")
		sb.WriteString(a.S)
	}
	sb.WriteString(")")
	return mk(sort, sb.String())
}

func And(ts ...Term) Term {
	var xs []Term
	for _, t := range ts {
		if t.S == "true" {
			continue
		}
		if t.S == "false" {
			return False
		}
		xs = append(xs, t)
	}
	if len(xs) == 0 {
		return True
	}
	if len(xs) == 1 {
		return xs[0]
	}
	return App(SBool, "and", xs...)
}

func Or(ts ...Term) Term {
	var xs []Term
	for _, t := range ts {
		if t.S == "false" {
			continue
		}
		if t.S == "true" {
			return True
		}
		xs = append(xs, t)
	}
	if len(xs) == 0 {
		return False
	}
	if len(xs) == 1 {
		return xs[0]
	}
	return App(SBool, "or", xs...)
}

func Not(t Term) Term {
	if t.S == "true" {
		return False
	}
	if t.S == "false" {
		return True
	}
	if strings.HasPrefix(t.S, "(not ") {
		return mk(SBool, t.S[5:len(t.S)-1])
	}
	return App(SBool, "not", t)
}

func Implies(a, b Term) Term {
	if a.S == "true" {
		return b
	}
	if a.S == "false" || b.S == "true" {
		return True
	}
	return App(SBool, "=>", a, b)
}

func Eq(a, b Term) Term {
	if a.S == b.S {
		return True
	}
	if a.Sort == SF64 {
		// structural equality on floats (used for definitions); Go's == is FEq
		return App(SBool, "=", a, b)
	}
	return App(SBool, "=", a, b)
}

func Ne(a, b Term) Term { return Not(Eq(a, b)) }

func Ite(c, a, b Term) Term {
	if c.S == "true" {
		return a
	}
	if c.S == "false" {
		return b
	}
	if a.S == b.S {
		return a
	}
	return App(a.Sort, "ite", c, a, b)
}

func Add(a, b Term) Term { return App(SInt, "+", a, b) }
func Sub(a, b Term) Term { return App(SInt, "-", a, b) }
func Mul(a, b Term) Term { return App(SInt, "*", a, b) }
func Neg(a Term) Term    { return App(SInt, "-", a) }
func Lt(a, b Term) Term  { return App(SBool, "<", a, b) }
func Le(a, b Term) Term  { return App(SBool, "<=", a, b) }
func Gt(a, b Term) Term  { return App(SBool, ">", a, b) }
func Ge(a, b Term) Term  { return App(SBool, ">=", a, b) }

func ArraySort(idx, elem Sort) Sort { return Sort(fmt.Sprintf("(Array %s %s)", idx, elem)) }

func Select(arr, idx Term) Term {
	es := arrayElemSort(arr.Sort)
	return App(es, "select", arr, idx)
}

func Store(arr, idx, v Term) Term { return App(arr.Sort, "store", arr, idx, v) }

// arrayElemSort parses "(Array I E)" and returns E.
func arrayElemSort(s Sort) Sort {
	str := string(s)
	if !strings.HasPrefix(str, "(Array ") {
		panic("not an array sort: " + str)
	}
	body := str[len("(Array ") : len(str)-1]
	// split first s-expr
	i := sexpEnd(body, 0)
	rest := strings.TrimSpace(body[i:])
	return Sort(rest)
}

func arrayIdxSort(s Sort) Sort {
	str := string(s)
	body := str[len("(Array ") : len(str)-1]
	i := sexpEnd(body, 0)
	return Sort(strings.TrimSpace(body[:i]))
}

func sexpEnd(s string, i int) int {
	for i < len(s) && s[i] == ' ' {
		i++
	}
	if i >= len(s) {
		return i
	}
	if s[i] != '(' {
		for i < len(s) && s[i] != ' ' && s[i] != ')' {
			i++
		}
		return i
	}
	depth := 0
	for i < len(s) {
		switch s[i] {
		case '(':
			depth++
		case ')':
			depth--
			if depth == 0 {
				return i + 1
			}
		}
		i++
	}
	return i
}

// Slice helpers (datatype Slice = mk_slice(s_arr, s_off, s_len, s_cap))
func SliceMk(arr, off, ln, cp Term) Term { return App(SSlice, "mk_slice", arr, off, ln, cp) }
func SliceArr(s Term) Term              { return App(SInt, "s_arr", s) }
func SliceOff(s Term) Term              { return App(SInt, "s_off", s) }
func SliceLen(s Term) Term              { return App(SInt, "s_len", s) }
func SliceCap(s Term) Term              { return App(SInt, "s_cap", s) }

var NilSlice = mk(SSlice, "(mk_slice 0 0 0 0)")

func StrLen(s Term) Term     { return App(SInt, "str_len", s) }
func StrAt(s, i Term) Term   { return App(SInt, "str_at", s, i) }
func Birth(r Term) Term      { return App(SInt, "birth", r) }
func DynType(r Term) Term    { return App(SInt, "dyn_type", r) }
func sanitize(s string) string {
	var sb strings.Builder
	for _, c := range s {
		switch {
		case c >= 'a' && c <= 'z', c >= 'A' && c <= 'Z', c >= '0' && c <= '9', c == '_':
			sb.WriteRune(c)
		case c == '.':
			sb.WriteString("_")
		case c == '*':
			sb.WriteString("P")
		case c == '$':
			sb.WriteString("_S")
		case c == '/':
			sb.WriteString("_")
		case c == '(' || c == ')':
		case c == '[':
			sb.WriteString("L")
		case c == ']':
			sb.WriteString("R")
		case c == ' ':
			sb.WriteString("_")
		default:
			sb.WriteString(fmt.Sprintf("x%X", c))
		}
	}
	return sb.String()
}

const (
	// lengths of strings and slices are assumed to stay below 2^62 (listed assumption)
	maxLenStr   = "4611686018427387903"
	maxInt64Str = "9223372036854775807"
	minInt64Str = "-9223372036854775808"
)

// Prelude is the fixed part of every SMT script.
const Prelude = `(set-option :produce-models true)
(set-logic ALL)
(declare-sort Str 0)
(define-sort F64 () (_ FloatingPoint 11 53))
(declare-datatypes ((Slice 0)) (((mk_slice (s_arr Int) (s_off Int) (s_len Int) (s_cap Int)))))
(declare-fun str_len (Str) Int)
(declare-fun str_at (Str Int) Int)
(declare-fun str_concat (Str Str) Str)
(declare-fun str_sub (Str Int Int) Str)
(declare-fun str_lt (Str Str) Bool)
(declare-fun str_from_rune (Int) Str)
(declare-fun rune_count (Str) Int)
(assert (forall ((s Str)) (! (and (>= (rune_count s) 0) (<= (rune_count s) (str_len s))) :pattern ((rune_count s)))))
(assert (forall ((s Str) (lo Int) (hi Int)) (! (=> (and (<= 0 lo) (<= lo hi) (<= hi (str_len s))) (= (str_len (str_sub s lo hi)) (- hi lo))) :pattern ((str_sub s lo hi)))))
(assert (forall ((s Str) (lo Int) (hi Int) (i Int)) (! (=> (and (<= 0 lo) (<= lo hi) (<= hi (str_len s)) (<= 0 i) (< i (- hi lo))) (= (str_at (str_sub s lo hi) i) (str_at s (+ lo i)))) :pattern ((str_at (str_sub s lo hi) i)))))
(declare-const str_empty Str)
(assert (= (str_len str_empty) 0))
(declare-fun birth (Int) Int)
(assert (= (birth 0) (- 1)))
(assert (forall ((r Int)) (! (>= (birth r) (- 1)) :pattern ((birth r)))))
(declare-fun perexec (Int) Bool)
(assert (perexec 0))
(declare-fun tyof (Int) Int)
(declare-fun dyn_type (Int) Int)
(assert (= (dyn_type 0) 0))
(define-fun wrap64 ((x Int)) Int (ite (> x 9223372036854775807) (- x 18446744073709551616) (ite (< x (- 9223372036854775808)) (+ x 18446744073709551616) x)))
(define-fun wrapmod64 ((x Int)) Int (- (mod (+ x 9223372036854775808) 18446744073709551616) 9223372036854775808))
(define-fun wrap32 ((x Int)) Int (- (mod (+ x 2147483648) 4294967296) 2147483648))
(define-fun wrap16 ((x Int)) Int (- (mod (+ x 32768) 65536) 32768))
(define-fun wrap8 ((x Int)) Int (- (mod (+ x 128) 256) 128))
(define-fun wrapu64 ((x Int)) Int (mod x 18446744073709551616))
(define-fun wrapu32 ((x Int)) Int (mod x 4294967296))
(define-fun wrapu16 ((x Int)) Int (mod x 65536))
(define-fun wrapu8 ((x Int)) Int (mod x 256))
(define-fun gdiv ((a Int) (b Int)) Int (ite (>= a 0) (ite (> b 0) (div a b) (- (div a (- b)))) (ite (> b 0) (- (div (- a) b)) (div (- a) (- b)))))
(define-fun grem ((a Int) (b Int)) Int (- a (* b (gdiv a b))))
(declare-fun bit_and (Int Int) Int)
(declare-fun bit_or (Int Int) Int)
(declare-fun bit_xor (Int Int) Int)
(declare-fun bit_andnot (Int Int) Int)
(declare-fun bit_shl (Int Int) Int)
(declare-fun bit_shr (Int Int) Int)
(declare-fun i2f (Int) F64)
(declare-fun f2i (F64) Int)
(declare-fun f32round (F64) F64)
`
