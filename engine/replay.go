package main

import (
	"bytes"
	"context"
	"encoding/json"
	"fmt"
	"os"
	"os/exec"
	"path/filepath"
	"regexp"
	"strings"
	"sync"
	"time"
)

// A replayCase turns a failed obligation into a concrete test against the real code.
type replayCase struct {
	Prop    string
	Pattern string // regexp over the obligation name
	Test    string // body of func TestPvcReplay(t *testing.T); must print "REPRODUCED: ..." when the misbehaviour shows
	Imports []string
	Race    bool // run the replay under the race detector; a reported race counts as reproduced
}

var replayRoot = "/verif/replays"
var replayCases []replayCase
var replayPrelude string

type ReplayFile struct {
	Property   string            `json:"property"`
	Obligation string            `json:"obligation"`
	Kind       string            `json:"kind"`
	Function   string            `json:"function"`
	Pos        string            `json:"pos"`
	Clause     string            `json:"clause"`
	Answer     string            `json:"solver_answer"`
	Solver     string            `json:"solver"`
	Model      string            `json:"model,omitempty"`
	SMTFile    string            `json:"smt_file,omitempty"`
	Replay     *ReplayOutcome    `json:"replay,omitempty"`
	Note       string            `json:"note,omitempty"`
}

type ReplayOutcome struct {
	Case       string `json:"case"`
	Reproduced bool   `json:"reproduced"`
	Input      string `json:"failing_input,omitempty"`
	Output     string `json:"output"`
	TestSource string `json:"test_source"`
	Race       bool   `json:"race,omitempty"`
}

func writeReplay(p *Prog, pd *PropDef, ob *Obligation, opts SolveOpts) (string, bool) {
	dir := filepath.Join(replayRoot, pd.ID)
	os.MkdirAll(dir, 0o755)
	base := sanitize(ob.Name)
	if len(base) > 120 {
		base = base[:120]
	}
	path := filepath.Join(dir, base+".json")
	rf := ReplayFile{Property: pd.ID, Obligation: ob.Name, Kind: ob.Kind, Function: ob.Func, Pos: ob.Pos, Clause: ob.Src,
		Answer: ob.Result, Solver: ob.Solver, Model: ob.Model}
	if ob.enc != nil && ob.Goal != "" {
		smt := filepath.Join(dir, base+".smt2")
		os.WriteFile(smt, []byte(ob.Standalone()), 0o644)
		rf.SMTFile = smt
	}
	found := false
	for _, rc := range replayCases {
		if rc.Prop != "" && rc.Prop != pd.ID {
			continue
		}
		ok, _ := regexp.MatchString(rc.Pattern, ob.Name)
		if !ok {
			continue
		}
		src := strings.ReplaceAll(buildReplayTest(rc), "__FUNC__", ob.Func)
		out, repro := runReplayTest(p.RepoDir, src, rc.Race)
		rf.Replay = &ReplayOutcome{Case: rc.Pattern, Reproduced: repro, Output: tail(out, 4000), TestSource: src, Race: rc.Race}
		if repro {
			found = true
			for _, l := range strings.Split(out, "\n") {
				if strings.Contains(l, "REPRODUCED:") {
					rf.Replay.Input = strings.TrimSpace(l[strings.Index(l, "REPRODUCED:")+11:])
					break
				}
			}
			break
		}
	}
	if !found {
		// property-level replay: the property itself, stated on a catalogue of concrete cases (oracles/)
		if out, src, ok := runOracle(p.RepoDir, pd.ID); ok {
			repro := strings.Contains(out, "REPRODUCED:")
			rf.Replay = &ReplayOutcome{Case: "oracle " + pd.ID, Reproduced: repro, Output: tail(out, 4000), TestSource: "zzOracle" + pd.ID + " in /verif/oracles/oracles_test.go.txt (" + itoa(len(src)) + " bytes)"}
			if repro {
				found = true
				for _, l := range strings.Split(out, "\n") {
					if strings.Contains(l, "REPRODUCED:") {
						rf.Replay.Input = strings.TrimSpace(l[strings.Index(l, "REPRODUCED:")+11:])
						break
					}
				}
			}
		}
	}
	if !found {
		rf.Note = "no-failing-input-found: the obligation is reported because it is part of the property and is no longer discharged; no concrete input was reproduced against the real code"
	}
	b, _ := json.MarshalIndent(rf, "", " ")
	os.WriteFile(path, b, 0o644)
	return path, found
}

func tail(s string, n int) string {
	if len(s) > n {
		return s[len(s)-n:]
	}
	return s
}

func buildReplayTest(rc replayCase) string {
	var sb strings.Builder
	sb.WriteString("package pongo2\n\nimport (\n\t\"testing\"\n\t\"fmt\"\n\t\"io\"\n\t\"strings\"\n\t\"time\"\n")
	for _, im := range rc.Imports {
		if im == "io" || im == "strings" || im == "time" {
			continue
		}
		sb.WriteString("\t\"" + im + "\"\n")
	}
	sb.WriteString(")\n\nvar _ = fmt.Sprint\nvar _ io.Reader\nvar _ = strings.Contains\nvar _ time.Time\n")
	sb.WriteString(replayPrelude)
	sb.WriteString("\nfunc TestPvcReplay(t *testing.T) {\n")
	sb.WriteString(rc.Test)
	sb.WriteString("\n}\n")
	return sb.String()
}

// runReplayTest injects the test into the package through an overlay (nothing is written to the repository).
func runReplayTest(repo, src string, race bool) (string, bool) {
	dir, err := os.MkdirTemp("", "pvcreplay")
	if err != nil {
		return err.Error(), false
	}
	defer os.RemoveAll(dir)
	tf := filepath.Join(dir, "zz_pvc_replay_test.go")
	os.WriteFile(tf, []byte(src), 0o644)
	ov := map[string]any{"Replace": map[string]string{filepath.Join(repo, "zz_pvc_replay_test.go"): tf}}
	ob, _ := json.Marshal(ov)
	ovf := filepath.Join(dir, "ov.json")
	os.WriteFile(ovf, ob, 0o644)
	start := time.Now()
	ctx, cancel := context.WithTimeout(context.Background(), 120*time.Second)
	defer cancel()
	args := []string{"test", "-overlay", ovf, "-vet=off", "-count=1", "-timeout", "60s", "-run", "^TestPvcReplay$", "-v"}
	if race {
		args = append(args, "-race")
	}
	args = append(args, ".")
	cmd := exec.CommandContext(ctx, "go", args...)
	cmd.Dir = repo
	cmd.Env = append(os.Environ(), "GOFLAGS=-mod=mod", "GOPROXY=off", "GOSUMDB=off", "GOTOOLCHAIN=local")
	var out bytes.Buffer
	cmd.Stdout = &out
	cmd.Stderr = &out
	cmd.Run()
	_ = start
	s := out.String()
	if race && strings.Contains(s, "WARNING: DATA RACE") {
		s += "\nREPRODUCED: the race detector reports a data race between concurrent executions (see output)\n"
	}
	return s, strings.Contains(s, "REPRODUCED:")
}

var oracleDir = "/verif/oracles"
var oracleMu sync.Mutex
var oracleCache = map[string][2]string{}

// runOracle runs zzOracle<prop> (if the oracle file defines it) against the tree; one run per property and process.
func runOracle(repo, prop string) (out, src string, ok bool) {
	oracleMu.Lock()
	defer oracleMu.Unlock()
	if c, hit := oracleCache[repo+"|"+prop]; hit {
		return c[0], c[1], c[1] != ""
	}
	b, err := os.ReadFile(filepath.Join(oracleDir, "oracles_test.go.txt"))
	if err != nil || !strings.Contains(string(b), "func zzOracle"+prop+"()") {
		oracleCache[repo+"|"+prop] = [2]string{"", ""}
		return "", "", false
	}
	src = string(b) + "\nfunc TestPvcReplay(t *testing.T) { zzOracle" + prop + "() }\n"
	out, _ = runReplayTest(repo, src, false)
	oracleCache[repo+"|"+prop] = [2]string{out, src}
	return out, src, true
}

var _ = fmt.Sprintf

// cmdReplay re-runs what a replay file records against the current tree: the test that reproduced the failure
// (or the property's oracle, or the bounded check), else the obligation's SMT query. Exit 1: the failure is still
// there; exit 0: it is not.
func cmdReplay(args []string) {
	repo := "/repo"
	verif := "/verif"
	if len(args) < 1 {
		fmt.Fprintln(os.Stderr, "usage: pvc replay <replay file>")
		os.Exit(2)
	}
	b, err := os.ReadFile(args[0])
	if err != nil {
		fmt.Fprintln(os.Stderr, err)
		os.Exit(2)
	}
	var m map[string]any
	if json.Unmarshal(b, &m) != nil {
		fmt.Fprintln(os.Stderr, "not a replay file")
		os.Exit(2)
	}
	str := func(k string) string { s, _ := m[k].(string); return s }
	prop, obl := str("property"), str("obligation")
	fmt.Printf("replay of %s (property %s)\n", obl, prop)
	oracleDir = filepath.Join(verif, "oracles")
	if str("kind") == "bounded" {
		name := strings.TrimPrefix(obl, "bounded/")
		for _, bd := range loadBounded(verif, prop) {
			if bd.Name == name {
				br := runBounded(repo, verif, bd, "quick")
				fmt.Printf("bounded check %s: ran=%v cases=%d failures=%d\n", name, br.Ran, br.Cases, br.Failures)
				for _, f := range br.Fails {
					fmt.Println("REPRODUCED:", f)
				}
				if !br.Ran || br.Failures > 0 {
					os.Exit(1)
				}
				os.Exit(0)
			}
		}
		fmt.Println("no such bounded check")
		os.Exit(2)
	}
	if rp, ok := m["replay"].(map[string]any); ok {
		src, _ := rp["test_source"].(string)
		cs, _ := rp["case"].(string)
		race, _ := rp["race"].(bool)
		out := ""
		ran := false
		if strings.HasPrefix(src, "package pongo2") {
			out, _ = runReplayTest(repo, src, race)
			ran = true
		} else if strings.HasPrefix(cs, "oracle ") {
			out, _, ran = runOracle(repo, prop)
		}
		if ran {
			fmt.Println(tail(out, 3000))
			if strings.Contains(out, "REPRODUCED:") {
				os.Exit(1)
			}
			fmt.Println("the recorded experiment no longer reproduces a failure on this tree")
		}
	}
	if smt := str("smt_file"); smt != "" {
		if sb, err := os.ReadFile(smt); err == nil {
			dir, _ := os.MkdirTemp("", "pvcreplay")
			defer os.RemoveAll(dir)
			out, _, _ := runSolver(solvers[0], string(sb), 20000, dir, "replay", 30*time.Second)
			a := parseAnswers(out)
			ans := "unknown"
			if len(a) > 0 {
				ans = a[0]
			}
			fmt.Printf("the obligation's query (as generated when the file was written) is answered %s by %s\n", ans, solvers[0].Name)
			if ans != "unsat" {
				os.Exit(1)
			}
			os.Exit(0)
		}
	}
	os.Exit(0)
}
