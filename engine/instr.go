package main

import (
	"fmt"
	"go/ast"
	"go/constant"
	"go/token"
	"go/types"
	"math/big"
	"sort"
	"strings"

	"golang.org/x/tools/go/ssa"
)

func (e *Enc) collectNamesImpl() {
	e.names = map[string][]ssa.Value{}
	e.nameAt = map[string]map[ssa.Value]ssa.Instruction{}
	for _, b := range e.fn.Blocks {
		for _, in := range b.Instrs {
			if dr, ok := in.(*ssa.DebugRef); ok {
				// local variables only (not the field named in a selector expression)
				if v, isVar := dr.Object().(*types.Var); !isVar || v.IsField() {
					continue
				}
				// the value of the variable itself, not of an implicit conversion of it at the point of use
				if !dr.IsAddr && !types.Identical(dr.X.Type(), dr.Object().Type()) {
					continue
				}
				if id, ok := dr.Expr.(*ast.Ident); ok {
					dup := false
					for _, v := range e.names[id.Name] {
						if v == dr.X {
							dup = true
						}
					}
					if !dup {
						e.names[id.Name] = append(e.names[id.Name], dr.X)
						if e.nameAt[id.Name] == nil {
							e.nameAt[id.Name] = map[ssa.Value]ssa.Instruction{}
						}
						e.nameAt[id.Name][dr.X] = dr // the variable holds this value from here on
					}
				}
			}
		}
	}
}

// valOf returns the symbolic value of an SSA value.
func (e *Enc) valOf(v ssa.Value) Val {
	if x, ok := e.vals[v]; ok {
		return x
	}
	switch c := v.(type) {
	case *ssa.Const:
		return Val{T: e.constTerm(c), Typ: c.Type()}
	case *ssa.Global:
		name := c.Name()
		if c.Pkg != e.p.SSAPkg {
			name = c.Pkg.Pkg.Name() + "." + c.Name()
			e.p.mu.Lock()
			if e.p.externGlobals == nil {
				e.p.externGlobals = map[string]*ssa.Global{}
			}
			e.p.externGlobals[name] = c
			e.p.mu.Unlock()
		}
		return Val{Addr: &Addr{Kind: "global", Key: "G|" + name, Elem: derefType(c.Type())}, Typ: c.Type()}
	case *ssa.Function:
		return Val{T: e.funcRef(c), Typ: c.Type()}
	case *ssa.Builtin:
		return Val{T: IntLit(0), Typ: c.Type()}
	}
	// value from a block not yet processed (only possible through back edges): fresh
	e.note("use of undefined SSA value %s (%T)", v.Name(), v)
	t := e.fresh("undef_"+v.Name(), e.sortOf(v.Type()))
	return Val{T: t, Typ: v.Type()}
}

func (e *Enc) funcRef(f *ssa.Function) Term {
	f = unwrapSynthetic(f)
	name := "fn_" + sanitize(f.String())
	if !e.decl[name] {
		c := e.declare(name, SInt)
		e.declareFun("fn_id", []Sort{SInt}, SInt)
		e.assert(Eq(App(SInt, "fn_id", c), IntLit(int64(e.p.FuncID(f)))))
		e.assert(Lt(Birth(c), IntLit(0)))
		e.assert(Ne(c, IntLit(0)))
		return c
	}
	return mk(SInt, name)
}

// termOf returns an SMT term for v, coercing addresses to opaque pointers.
func (e *Enc) termOf(v ssa.Value) Term { return e.coerce(e.valOf(v)) }

func (e *Enc) coerce(v Val) Term {
	if v.Addr != nil {
		return e.addrToTerm(v.Addr)
	}
	if v.Tuple != nil {
		e.note("tuple coerced to term")
		return e.fresh("tuple", Sort("X_tuple"))
	}
	return v.T
}

// addrToTerm gives an address a first-class (opaque) representation.
func (e *Enc) addrToTerm(a *Addr) Term {
	switch a.Kind {
	case "cv":
		return a.Base
	case "wild":
		return a.Base
	case "field":
		// injective function of (object, field)
		fn := "fa_" + sanitize(e.p.fieldKey(a.Struct, a.Field))
		e.declareFun(fn, []Sort{SInt}, SInt)
		t := App(SInt, fn, a.Base)
		return t
	case "elem":
		e.declareFun("ea", []Sort{SInt, SInt}, SInt)
		return App(SInt, "ea", a.Base, a.Idx)
	case "global":
		return e.declare("ga_"+sanitize(a.Key), SInt)
	}
	e.note("address of kind %s escapes as opaque pointer", a.Kind)
	return e.fresh("opaque", SInt)
}

func (e *Enc) constTerm(c *ssa.Const) Term {
	t := c.Type()
	if c.Value == nil {
		return e.zero(t)
	}
	switch u := t.Underlying().(type) {
	case *types.Basic:
		switch {
		case u.Info()&types.IsBoolean != 0:
			return BoolLit(constant.BoolVal(c.Value))
		case u.Info()&types.IsInteger != 0:
			iv := constant.ToInt(c.Value)
			return BigLit(iv.ExactString())
		case u.Info()&types.IsFloat != 0:
			return e.floatLit(c.Value)
		case u.Info()&types.IsString != 0:
			return e.strLit(constant.StringVal(c.Value))
		}
	}
	e.note("unsupported constant of type %s", t)
	return e.fresh("const", e.sortOf(t))
}

func (e *Enc) floatLit(v constant.Value) Term {
	f, _ := constant.Float64Val(v)
	if f == 0 {
		return mk(SF64, "(_ +zero 11 53)")
	}
	r := new(big.Rat)
	r.SetFloat64(f)
	num, den := r.Num(), r.Denom()
	neg := num.Sign() < 0
	if neg {
		num = new(big.Int).Neg(num)
	}
	s := fmt.Sprintf("((_ to_fp 11 53) RNE (/ %s.0 %s.0))", num.String(), den.String())
	if neg {
		s = "(fp.neg " + s + ")"
	}
	return mk(SF64, s)
}

// strLit declares a string literal constant with its length and (for short ones) its bytes.
func (e *Enc) strLit(s string) Term {
	if s == "" {
		return mk(SStr, "str_empty")
	}
	if t, ok := e.strlits[s]; ok {
		return t
	}
	id := e.p.StrID(s)
	name := fmt.Sprintf("sl_%d", id)
	t := e.declare(name, SStr)
	e.emit(fmt.Sprintf("; %s = %q", name, truncate(s, 60)))
	e.assert(Eq(StrLen(t), IntLit(int64(len(s)))))
	if len(s) <= 40 {
		for i := 0; i < len(s); i++ {
			e.assert(Eq(StrAt(t, IntLit(int64(i))), IntLit(int64(s[i]))))
		}
	}
	if len(s) == 1 {
		// a one-character string is determined by its character (extensionality, needed to conclude from
		// x != "\n" that a one-character x holds another character)
		e.assert(mk(SBool, fmt.Sprintf("(forall ((qs Str)) (! (=> (and (= (str_len qs) 1) (= (str_at qs 0) %d)) (= qs %s)) :pattern ((str_len qs))))", s[0], t.S)))
	}
	for _, o := range e.strlitOrder {
		e.assert(Ne(t, o))
	}
	e.strlits[s] = t
	e.strlitOrder = append(e.strlitOrder, t)
	return t
}

func truncate(s string, n int) string {
	if len(s) > n {
		return s[:n] + "..."
	}
	return s
}

// ---------- loads and stores ----------

func (e *Enc) load(a *Addr) Term {
	st := e.cur
	switch a.Kind {
	case "field":
		arr := e.heapGet(st, e.p.fieldKey(a.Struct, a.Field))
		return Select(arr, a.Base)
	case "elem":
		arr := e.heapGet(st, e.p.elemKey(a.Elem))
		r := Select(Select(arr, a.Base), a.Idx)
		if _, ok := e.p.Contracts.NonNil[e.p.elemKey(a.Elem)]; ok {
			e.assume(Ne(r, IntLit(0)))
		}
		return r
	case "global":
		return e.heapGet(st, a.Key)
	case "local":
		if t, ok := st.locals[a.Local]; ok {
			return t
		}
		z := e.zero(a.Elem)
		st.locals[a.Local] = z
		return z
	case "cv":
		return Select(e.heapGet(st, a.Key), a.Base)
	case "sub":
		outer := e.load(a.Outer)
		return e.structSel(outer, a.Struct, a.Field)
	case "wild":
		e.note("load through opaque pointer (%s)", e.p.relTypeString(a.Elem))
		c := e.fresh("wildload", e.sortOf(a.Elem))
		e.assume(e.typeInv(c, a.Elem, e.cur.now))
		return c
	}
	panic("load: bad addr kind " + a.Kind)
}

func (e *Enc) store(a *Addr, v Term) {
	st := e.cur
	switch a.Kind {
	case "field":
		k := e.p.fieldKey(a.Struct, a.Field)
		arr := e.heapGet(st, k)
		e.heapSet(st, k, e.define("H_"+k, Store(arr, a.Base, v)))
	case "elem":
		k := e.p.elemKey(a.Elem)
		arr := e.heapGet(st, k)
		e.heapSet(st, k, e.define("H_"+k, Store(arr, a.Base, Store(Select(arr, a.Base), a.Idx, v))))
	case "global":
		e.heapSet(st, a.Key, v)
	case "local":
		st.locals[a.Local] = v
	case "cv":
		arr := e.heapGet(st, a.Key)
		e.heapSet(st, a.Key, e.define("H_cv", Store(arr, a.Base, v)))
	case "sub":
		outer := e.load(a.Outer)
		e.store(a.Outer, e.structUpd(outer, a.Struct, a.Field, v))
	case "wild":
		e.note("store through opaque pointer (%s)", e.p.relTypeString(a.Elem))
		for _, k := range e.expandKeys(KeySet{e.p.wildKey(a.Elem): true}) {
			e.havocKey(st, k)
		}
	default:
		panic("store: bad addr kind " + a.Kind)
	}
}

// addrOfPointer interprets a pointer-typed value as an address.
func (e *Enc) addrOfPointer(v Val, ptrT types.Type) *Addr {
	if v.Addr != nil {
		return v.Addr
	}
	elem := derefType(ptrT)
	return &Addr{Kind: "wild", Base: v.T, Elem: elem}
}

// loadStruct reads a whole struct value through a pointer term.
func (e *Enc) loadStructAt(ref Term, t types.Type) Term {
	st := t.Underlying().(*types.Struct)
	_, local, _ := e.p.structSortName(t)
	if !local {
		k := e.p.cellKey(t)
		return Select(e.heapGet(e.cur, k), ref)
	}
	var fs []Term
	for i := 0; i < st.NumFields(); i++ {
		fs = append(fs, Select(e.heapGet(e.cur, e.p.fieldKey(t, i)), ref))
	}
	return e.structMk(t, fs)
}

func (e *Enc) storeStructAt(ref Term, t types.Type, v Term) {
	st := t.Underlying().(*types.Struct)
	_, local, _ := e.p.structSortName(t)
	if !local {
		k := e.p.cellKey(t)
		e.heapSet(e.cur, k, Store(e.heapGet(e.cur, k), ref, v))
		return
	}
	for i := 0; i < st.NumFields(); i++ {
		k := e.p.fieldKey(t, i)
		e.heapSet(e.cur, k, e.define("H_"+k, Store(e.heapGet(e.cur, k), ref, e.structSel(v, t, i))))
	}
}

// ---------- instructions ----------

func (e *Enc) setVal(v ssa.Value, t Term) {
	e.vals[v] = Val{T: t, Typ: v.Type()}
}

// bind defines a named constant for an instruction result.
func (e *Enc) bind(v ssa.Value, t Term) Term {
	srt := e.sortOf(v.Type())
	if t.Sort != srt {
		e.note("sort mismatch binding %s: %s vs %s", v.Name(), t.Sort, srt)
		t = e.fresh("mismatch", srt)
	}
	c := e.declare(e.valName(v), srt)
	e.assert(Eq(c, t))
	e.setVal(v, c)
	return c
}

func (e *Enc) havocVal(v ssa.Value) Term {
	c := e.declare(e.valName(v), e.sortOf(v.Type()))
	e.assume(e.typeInv(c, v.Type(), e.cur.now))
	e.setVal(v, c)
	return c
}

func (e *Enc) newRef(prefix string) Term {
	r := e.fresh(prefix, SInt)
	e.assert(Eq(Birth(r), e.cur.now))
	e.assert(Ne(r, IntLit(0)))
	e.cur.now = e.define("now", Add(e.cur.now, IntLit(1)))
	return r
}

func (e *Enc) encodeInstr(in ssa.Instruction) {
	if len(e.escAt) > 0 {
		e.noteEscapes(in)
	}
	switch x := in.(type) {
	case *ssa.DebugRef:
	case *ssa.Alloc:
		e.encodeAlloc(x)
	case *ssa.BinOp:
		e.encodeBinOp(x)
	case *ssa.UnOp:
		e.encodeUnOp(x)
	case *ssa.Call:
		res := e.encodeCall(x.Common(), x, x.Pos())
		if x.Type() != nil {
			if tup, ok := x.Type().(*types.Tuple); ok && tup.Len() != 1 {
				e.vals[x] = Val{Tuple: res, Typ: x.Type()}
			} else if len(res) == 1 {
				r := res[0]
				r.Typ = x.Type()
				e.vals[x] = r
			}
		}
	case *ssa.Defer:
		e.defers = append(e.defers, x)
		if e.curBlock != nil && !e.curBlock.Dominates(e.lastBlock()) {
			// conditional defers are not modelled precisely
			if len(e.inLoops[e.curBlock]) > 0 {
				e.note("defer inside loop")
			}
		}
	case *ssa.RunDefers:
		for i := len(e.defers) - 1; i >= 0; i-- {
			d := e.defers[i]
			if !d.Block().Dominates(e.curBlock) {
				if !e.reachBlocks[d.Block()][e.curBlock] {
					continue // never registered on this path
				}
				e.note("conditional defer (havoc)")
				for _, k := range e.expandKeys(e.callMod(d.Common())) {
					e.havocKey(e.cur, k)
				}
				continue
			}
			e.encodeCall(d.Common(), d, d.Pos())
		}
	case *ssa.Go:
		e.note("go statement unsupported")
	case *ssa.ChangeInterface:
		e.vals[x] = Val{T: e.termOf(x.X), Typ: x.Type()}
	case *ssa.ChangeType:
		v := e.valOf(x.X)
		v.Typ = x.Type()
		e.vals[x] = v
	case *ssa.Convert:
		e.encodeConvert(x)
	case *ssa.MultiConvert:
		e.note("MultiConvert unsupported")
		e.havocVal(x)
	case *ssa.SliceToArrayPointer:
		e.note("SliceToArrayPointer unsupported")
		e.havocVal(x)
	case *ssa.Extract:
		tv := e.valOf(x.Tuple)
		if x.Index < len(tv.Tuple) {
			r := tv.Tuple[x.Index]
			e.vals[x] = r
		} else {
			e.note("extract from non-tuple")
			e.havocVal(x)
		}
	case *ssa.Field:
		sv := e.termOf(x.X)
		e.bind(x, e.structSel(sv, x.X.Type(), x.Field))
	case *ssa.FieldAddr:
		e.encodeFieldAddr(x)
	case *ssa.IndexAddr:
		e.encodeIndexAddr(x)
	case *ssa.Index:
		e.encodeIndex(x)
	case *ssa.Lookup:
		e.encodeLookup(x)
	case *ssa.If:
		c := e.termOf(x.Cond)
		b := x.Block()
		e.edgeCond[[2]int{b.Index, 0}] = And(e.curReach, c)
		e.edgeCond[[2]int{b.Index, 1}] = And(e.curReach, Not(c))
		e.backEdges(b)
	case *ssa.Jump:
		b := x.Block()
		e.edgeCond[[2]int{b.Index, 0}] = e.curReach
		e.backEdges(b)
	case *ssa.Return:
		var vs []Val
		for _, r := range x.Results {
			vs = append(vs, e.valOf(r))
		}
		e.rets = append(e.rets, retRec{block: x.Block(), reach: e.curReach, vals: vs, state: e.cur.clone()})
	case *ssa.Panic:
		if !e.fnFlag("maypanic") {
			e.oblige("panic", "", x.Pos(), False, nil, "explicit panic must be unreachable")
		}
	case *ssa.MakeChan:
		e.bind(x, e.newRef("chan"))
	case *ssa.MakeClosure:
		e.encodeMakeClosure(x)
	case *ssa.MakeInterface:
		e.encodeMakeInterface(x)
	case *ssa.MakeMap:
		r := e.newRef("map")
		mt := x.Type().Underlying().(*types.Map)
		mk := e.p.mapKey(mt)
		hk := mapHasKey(mk)
		ks := e.sortOf(mt.Key())
		e.sortOf(mt.Elem())
		emptyHas := mk2(ArraySort(ks, SBool), fmt.Sprintf("((as const (Array %s Bool)) false)", ks))
		e.heapSet(e.cur, hk, e.define("H_mh", Store(e.heapGet(e.cur, hk), r, emptyHas)))
		e.bind(x, r)
		e.mapAllocs = append(e.mapAllocs, mapAllocRec{val: x, ref: r, key: mk, block: e.curBlock})
	case *ssa.MakeSlice:
		ln := e.termOf(x.Len)
		cp := e.termOf(x.Cap)
		e.oblige("makeslice", "", x.Pos(), And(Ge(ln, IntLit(0)), Ge(cp, ln)), nil, "make: 0 <= len <= cap")
		if st, ok := x.Type().Underlying().(*types.Slice); ok {
			if props, ok := e.p.Contracts.NonNil[e.p.elemKey(st.Elem())]; ok {
				e.oblige("nonnil", "make/"+e.p.elemKey(st.Elem()), x.Pos(), Eq(ln, IntLit(0)), props, "a list of this kind is made empty (its elements are never nil)")
			}
		}
		r := e.newRef("arr")
		e.bind(x, SliceMk(r, IntLit(0), ln, cp))
	case *ssa.MapUpdate:
		e.encodeMapUpdate(x)
	case *ssa.Range:
		// iterator is opaque; Next is modelled as a havoc over the ranged collection.
		// For maps a ghost set records the keys already delivered (exit: every key was delivered).
		e.vals[x] = Val{T: IntLit(0), Typ: x.Type()}
		if mt, ok := x.X.Type().Underlying().(*types.Map); ok {
			key := e.seenKey(x)
			ks := e.sortOf(mt.Key())
			c := e.declare("H0_"+sanitize(key), ArraySort(ks, SBool))
			e.heap0[key] = c
			e.cur.heap[key] = mk(ArraySort(ks, SBool), fmt.Sprintf("((as const (Array %s Bool)) false)", ks))
		}
	case *ssa.Next:
		e.encodeNext(x)
	case *ssa.Select, *ssa.Send:
		e.note("channel operation unsupported")
	case *ssa.Slice:
		e.encodeSlice(x)
	case *ssa.Store:
		e.encodeStore(x)
	case *ssa.TypeAssert:
		e.encodeTypeAssert(x)
	default:
		e.note("unsupported instruction %T", in)
		if v, ok := in.(ssa.Value); ok {
			e.havocVal(v)
		}
	}
}

func mk2(s Sort, t string) Term { return mk(s, t) }

func (e *Enc) lastBlock() *ssa.BasicBlock { return e.fn.Blocks[len(e.fn.Blocks)-1] }

func (e *Enc) fnFlag(f string) bool { return e.fc != nil && e.fc.Flags[f] }

func (e *Enc) encodeAlloc(x *ssa.Alloc) {
	elem := derefType(x.Type())
	if e.p.promotable(x) {
		e.vals[x] = Val{Addr: &Addr{Kind: "local", Local: x, Elem: elem}, Typ: x.Type()}
		e.cur.locals[x] = e.zero(elem)
		return
	}
	r := e.newRef("new_" + x.Comment)
	c := e.bind(x, r)
	if _, isStruct := elem.Underlying().(*types.Struct); isStruct {
		e.assert(Eq(App(SInt, "tyof", c), IntLit(int64(e.p.TypeID(elem)))))
	}
	e.allocs = append(e.allocs, allocRec{val: x, instr: x, ref: c, typ: elem, block: e.curBlock})
	switch u := elem.Underlying().(type) {
	case *types.Struct:
		if _, local, _ := e.p.structSortName(elem); local {
			for i := 0; i < u.NumFields(); i++ {
				k := e.p.fieldKey(elem, i)
				e.heapSet(e.cur, k, e.define("H_"+k, Store(e.heapGet(e.cur, k), c, e.zero(u.Field(i).Type()))))
			}
		} else {
			k := e.p.cvKey(x)
			e.registerKey(k)
			e.vals[x] = Val{T: c, Typ: x.Type()}
		}
	case *types.Array:
		// elements zeroed lazily: assert zero for constant small arrays
		k := e.p.elemKey(u.Elem())
		if u.Len() <= 16 {
			arr := Select(e.heapGet(e.cur, k), c)
			for i := int64(0); i < u.Len(); i++ {
				arr = Store(arr, IntLit(i), e.zero(u.Elem()))
			}
			e.heapSet(e.cur, k, e.define("H_"+k, Store(e.heapGet(e.cur, k), c, arr)))
		}
	default:
		k := e.p.cvKey(x)
		e.registerKey(k)
		arr := e.heapGet(e.cur, k)
		e.heapSet(e.cur, k, e.define("H_cv", Store(arr, c, e.zero(elem))))
		e.vals[x] = Val{Addr: &Addr{Kind: "cv", Base: c, Key: k, Elem: elem}, Typ: x.Type(), T: c}
	}
}

func (e *Enc) registerKey(k string) {
	e.p.mu.Lock()
	defer e.p.mu.Unlock()
	if e.p.allKeys == nil {
		e.p.allKeys = KeySet{}
	}
	e.p.allKeys.Add(k)
}

func (e *Enc) encodeFieldAddr(x *ssa.FieldAddr) {
	base := e.valOf(x.X)
	st := derefType(x.X.Type())
	ft := st.Underlying().(*types.Struct).Field(x.Field).Type()
	_, local, _ := e.p.structSortName(st)
	if base.Addr != nil && base.Addr.Kind != "cv" {
		// address of a struct value nested in something else
		e.vals[x] = Val{Addr: &Addr{Kind: "sub", Outer: base.Addr, Struct: st, Field: x.Field, Elem: ft}, Typ: x.Type()}
		return
	}
	if base.Addr != nil && base.Addr.Kind == "cv" {
		// struct value held in a cell (extern struct local): sub-address of the cell
		e.vals[x] = Val{Addr: &Addr{Kind: "sub", Outer: base.Addr, Struct: st, Field: x.Field, Elem: ft}, Typ: x.Type()}
		return
	}
	if !local {
		e.note("field of extern struct %s accessed", e.p.relTypeString(st))
		outer := &Addr{Kind: "wild", Base: base.T, Elem: st}
		e.vals[x] = Val{Addr: &Addr{Kind: "sub", Outer: outer, Struct: st, Field: x.Field, Elem: ft}, Typ: x.Type()}
		return
	}
	// a pointer that may be nil by origin must be shown non-nil; any other dereferenced pointer is assumed non-nil
	e.nilDerefObligation(x.X, base.T, x.Pos(), "field "+st.Underlying().(*types.Struct).Field(x.Field).Name())
	e.assume(Ne(base.T, IntLit(0)))
	e.vals[x] = Val{Addr: &Addr{Kind: "field", Base: base.T, Struct: st, Field: x.Field, Elem: ft}, Typ: x.Type()}
}

func (e *Enc) encodeIndexAddr(x *ssa.IndexAddr) {
	idx := e.termOf(x.Index)
	switch xt := x.X.Type().Underlying().(type) {
	case *types.Slice:
		s := e.termOf(x.X)
		e.oblige("bounds", "", x.Pos(), And(Ge(idx, IntLit(0)), Lt(idx, SliceLen(s))), nil, "slice index in range")
		e.vals[x] = Val{Addr: &Addr{Kind: "elem", Base: SliceArr(s), Idx: e.define("ix", Add(SliceOff(s), idx)), Elem: xt.Elem()}, Typ: x.Type()}
	case *types.Pointer:
		at := xt.Elem().Underlying().(*types.Array)
		base := e.termOf(x.X)
		e.oblige("bounds", "", x.Pos(), And(Ge(idx, IntLit(0)), Lt(idx, IntLit(at.Len()))), nil, "array index in range")
		e.vals[x] = Val{Addr: &Addr{Kind: "elem", Base: base, Idx: idx, Elem: at.Elem()}, Typ: x.Type()}
	default:
		e.note("IndexAddr on %s", x.X.Type())
		e.vals[x] = Val{Addr: &Addr{Kind: "wild", Base: e.fresh("ia", SInt), Elem: derefType(x.Type())}, Typ: x.Type()}
	}
}

func (e *Enc) encodeIndex(x *ssa.Index) {
	idx := e.termOf(x.Index)
	switch xt := x.X.Type().Underlying().(type) {
	case *types.Basic: // string
		s := e.termOf(x.X)
		e.oblige("bounds", "", x.Pos(), And(Ge(idx, IntLit(0)), Lt(idx, StrLen(s))), nil, "string index in range")
		c := e.bind(x, StrAt(s, idx))
		e.assume(And(Ge(c, IntLit(0)), Le(c, IntLit(255))))
	case *types.Array:
		e.oblige("bounds", "", x.Pos(), And(Ge(idx, IntLit(0)), Lt(idx, IntLit(xt.Len()))), nil, "array index in range")
		e.havocVal(x)
	default:
		e.havocVal(x)
	}
}

func (e *Enc) encodeLookup(x *ssa.Lookup) {
	if mt, ok := x.X.Type().Underlying().(*types.Map); ok {
		m := e.termOf(x.X)
		k := e.termOf(x.Index)
		mk := e.p.mapKey(mt)
		has := Select(Select(e.heapGet(e.cur, mapHasKey(mk)), m), k)
		val := Select(Select(e.heapGet(e.cur, mapValKey(mk)), m), k)
		v := e.fresh("mapval", e.sortOf(mt.Elem()))
		e.assert(Eq(v, Ite(And(Ne(m, IntLit(0)), has), val, e.zero(mt.Elem()))))
		e.assume(e.typeInv(v, mt.Elem(), e.cur.now))
		if _, ok := e.p.Contracts.NonNil[mapValKey(mk)]; ok {
			e.assume(Implies(And(Ne(m, IntLit(0)), has), Ne(val, IntLit(0))))
		}
		if x.CommaOk {
			okc := e.fresh("mapok", SBool)
			e.assert(Eq(okc, And(Ne(m, IntLit(0)), has)))
			e.vals[x] = Val{Tuple: []Val{{T: v, Typ: mt.Elem()}, {T: okc, Typ: types.Typ[types.Bool]}}, Typ: x.Type()}
		} else {
			e.vals[x] = Val{T: v, Typ: x.Type()}
		}
		return
	}
	// string index
	s := e.termOf(x.X)
	idx := e.termOf(x.Index)
	e.oblige("bounds", "", x.Pos(), And(Ge(idx, IntLit(0)), Lt(idx, StrLen(s))), nil, "string index in range")
	c := e.bind(x, StrAt(s, idx))
	e.assume(And(Ge(c, IntLit(0)), Le(c, IntLit(255))))
}

func (e *Enc) encodeMapUpdate(x *ssa.MapUpdate) {
	mt := x.Map.Type().Underlying().(*types.Map)
	m := e.termOf(x.Map)
	k := e.termOf(x.Key)
	v := e.termOf(x.Value)
	// writes to a nil map belong to the nil-dereference class (assumed away, DESIGN 3.4-1)
	e.assume(Ne(m, IntLit(0)))
	if props, ok := e.p.Contracts.NonNil[mapValKey(e.p.mapKey(mt))]; ok {
		e.oblige("nonnil", "mapvalue/"+e.p.mapKey(mt), x.Pos(), Ne(v, IntLit(0)), props, "a pointer stored as a value of this kind of map is not nil")
	}
	e.frameObligation(x, "mapupdate", e.p.mapKey(mt), m, x.Pos())
	e.writersObligation(e.p.mapKey(mt), m, x.Pos())
	if e.fc != nil {
		ord := e.mapUpdateOrdinal(x)
		for i, at := range e.fc.At {
			if at.Callee != "mapupdate" && at.Callee != fmt.Sprintf("mapupdate#%d", ord) {
				continue
			}
			e.atHit[i] = true
			env := e.fnEnv(e.cur)
			env.vars["m"] = TV{T: m, Typ: x.Map.Type()}
			env.vars["k"] = TV{T: k, Typ: x.Key.Type()}
			env.vars["v"] = TV{T: v, Typ: x.Value.Type()}
			label := at.Clause.Label
			if label == "" {
				label = "a" + itoa(i)
			}
			t, err := env.Eval(at.Clause.Expr)
			if err != nil {
				e.contractError(e.name, at.Clause, err, x.Pos())
				continue
			}
			e.oblige("at", "mapupdate/"+label, x.Pos(), t.T, at.Clause.Props, "at mapupdate requires "+at.Clause.Src)
		}
	}
	mk := e.p.mapKey(mt)
	hk, vk := mapHasKey(mk), mapValKey(mk)
	h := e.heapGet(e.cur, hk)
	vv := e.heapGet(e.cur, vk)
	e.heapSet(e.cur, hk, e.define("H_mh", Store(h, m, Store(Select(h, m), k, True))))
	e.heapSet(e.cur, vk, e.define("H_mv", Store(vv, m, Store(Select(vv, m), k, v))))
}

func (e *Enc) encodeNext(x *ssa.Next) {
	rng := x.Iter.(*ssa.Range)
	okc := e.fresh("next_ok", SBool)
	if x.IsString {
		s := e.termOf(rng.X)
		i := e.fresh("next_i", SInt)
		r := e.fresh("next_r", SInt)
		e.assume(Implies(okc, And(Ge(i, IntLit(0)), Lt(i, StrLen(s)))))
		e.assume(And(Ge(r, IntLit(0)), Le(r, IntLit(0x10FFFF))))
		e.vals[x] = Val{Tuple: []Val{{T: okc}, {T: i}, {T: r}}, Typ: x.Type()}
		return
	}
	mt := rng.X.Type().Underlying().(*types.Map)
	m := e.termOf(rng.X)
	mk := e.p.mapKey(mt)
	k := e.fresh("next_k", e.sortOf(mt.Key()))
	hasArr := Select(e.heapGet(e.cur, mapHasKey(mk)), m)
	has := Select(hasArr, k)
	val := Select(Select(e.heapGet(e.cur, mapValKey(mk)), m), k)
	v := e.fresh("next_v", e.sortOf(mt.Elem()))
	e.assume(Implies(okc, And(has, Eq(v, val), Ne(m, IntLit(0)))))
	// ghost: keys delivered so far
	skey := e.seenKey(rng)
	if seen, ok := e.cur.heap[skey]; ok {
		e.assume(Implies(okc, Not(Select(seen, k))))
		q := fmt.Sprintf("(forall ((qk %s)) (! (=> (select %s qk) (select %s qk)) :pattern ((select %s qk))))", e.sortOf(mt.Key()), hasArr.S, seen.S, hasArr.S)
		e.assume(Implies(Not(okc), Or(Eq(m, IntLit(0)), mk2(SBool, q))))
		e.cur.heap[skey] = e.define("seen", Ite(okc, Store(seen, k, True), seen))
	}
	e.assume(e.typeInv(k, mt.Key(), e.cur.now))
	e.assume(e.typeInv(v, mt.Elem(), e.cur.now))
	e.vals[x] = Val{Tuple: []Val{{T: okc}, {T: k, Typ: mt.Key()}, {T: v, Typ: mt.Elem()}}, Typ: x.Type()}
}

func (e *Enc) encodeSlice(x *ssa.Slice) {
	var lo, hi, mx Term
	hasLo, hasHi, hasMax := x.Low != nil, x.High != nil, x.Max != nil
	if hasLo {
		lo = e.termOf(x.Low)
	} else {
		lo = IntLit(0)
	}
	if hasHi {
		hi = e.termOf(x.High)
	}
	if hasMax {
		mx = e.termOf(x.Max)
	}
	switch xt := x.X.Type().Underlying().(type) {
	case *types.Basic: // string
		s := e.termOf(x.X)
		if !hasHi {
			hi = StrLen(s)
		}
		e.oblige("slice", "", x.Pos(), And(Ge(lo, IntLit(0)), Le(lo, hi), Le(hi, StrLen(s))), nil, "string slice bounds")
		e.bindSubstr(x, s, lo, hi)
	case *types.Slice:
		s := e.termOf(x.X)
		if !hasHi {
			hi = SliceLen(s)
		}
		bound := SliceCap(s)
		goal := And(Ge(lo, IntLit(0)), Le(lo, hi), Le(hi, bound))
		if hasMax {
			goal = And(Ge(lo, IntLit(0)), Le(lo, hi), Le(hi, mx), Le(mx, bound))
		}
		e.oblige("slice", "", x.Pos(), goal, nil, "slice bounds")
		newCap := Sub(SliceCap(s), lo)
		if hasMax {
			newCap = Sub(mx, lo)
		}
		e.bind(x, SliceMk(SliceArr(s), Add(SliceOff(s), lo), Sub(hi, lo), newCap))
	case *types.Pointer: // *[N]T
		at := xt.Elem().Underlying().(*types.Array)
		base := e.termOf(x.X)
		n := IntLit(at.Len())
		if !hasHi {
			hi = n
		}
		goal := And(Ge(lo, IntLit(0)), Le(lo, hi), Le(hi, n))
		e.oblige("slice", "", x.Pos(), goal, nil, "array slice bounds")
		newCap := Sub(n, lo)
		if hasMax {
			newCap = Sub(mx, lo)
		}
		e.bind(x, SliceMk(base, lo, Sub(hi, lo), newCap))
	default:
		e.havocVal(x)
	}
}

func (e *Enc) bindSubstr(x ssa.Value, s, lo, hi Term) Term {
	c := e.bind(x, App(SStr, "str_sub", s, lo, hi))
	e.substrFacts(c, s, lo, hi)
	return c
}

func (e *Enc) substrFacts(c, s, lo, hi Term) {
	e.assume(Eq(StrLen(c), Sub(hi, lo)))
	e.assume(Implies(And(Eq(lo, IntLit(0)), Eq(hi, StrLen(s))), Eq(c, s)))
	q := fmt.Sprintf("(forall ((qi Int)) (! (=> (and (>= qi 0) (< qi (- %s %s))) (= (str_at %s qi) (str_at %s (+ %s qi)))) :pattern ((str_at %s qi))))", hi.S, lo.S, c.S, s.S, lo.S, c.S)
	e.assume(mk(SBool, q))
}

func (e *Enc) encodeStore(x *ssa.Store) {
	av := e.valOf(x.Addr)
	valT := x.Val.Type()
	// storing a whole struct through a pointer term
	if av.Addr == nil {
		elem := derefType(x.Addr.Type())
		if _, ok := elem.Underlying().(*types.Struct); ok {
			e.frameObligation(x, "store", "S|"+e.p.structKeyName(elem), av.T, x.Pos())
			e.storeStructAt(av.T, elem, e.termOf(x.Val))
			return
		}
		a := &Addr{Kind: "wild", Base: av.T, Elem: elem}
		e.frameObligationAddr(x, a, x.Pos())
		e.store(a, e.termOf(x.Val))
		return
	}
	_ = valT
	if av.Addr.Kind == "field" && e.prefix == "" {
		e.directStores[e.p.fieldKey(av.Addr.Struct, av.Addr.Field)] = true
	}
	if av.Addr.Kind == "elem" {
		if props, ok := e.p.Contracts.NonNil[e.p.elemKey(av.Addr.Elem)]; ok {
			e.oblige("nonnil", "element/"+e.p.elemKey(av.Addr.Elem), x.Pos(), Ne(e.termOf(x.Val), IntLit(0)), props, "a pointer stored as an element of this kind of list is not nil")
		}
	}
	e.guardObligation(av.Addr, x.Pos(), "write")
	e.monotoneObligation(av.Addr, e.termOf(x.Val), x.Pos())
	if av.Addr.Kind == "field" {
		e.writersObligation(e.p.fieldKey(av.Addr.Struct, av.Addr.Field), av.Addr.Base, x.Pos())
		e.storeAtClauses(x, av.Addr)
	}
	if av.Addr.Kind == "elem" {
		e.writersObligation(e.p.elemKey(av.Addr.Elem), av.Addr.Base, x.Pos())
	}
	e.frameObligationAddr(x, av.Addr, x.Pos())
	e.store(av.Addr, e.termOf(x.Val))
	if fa, ok := x.Addr.(*ssa.FieldAddr); ok && av.Addr.Kind == "field" {
		fname := av.Addr.Struct.Underlying().(*types.Struct).Field(av.Addr.Field).Name()
		if e.moreStoresToSameObject(x) {
			if e.pendingInv == nil {
				e.pendingInv = map[ssa.Value][]string{}
			}
			e.pendingInv[fa.X] = append(e.pendingInv[fa.X], fname)
		} else {
			e.typeInvAfterStore(av.Addr, x.Pos(), e.pendingInv[fa.X])
			delete(e.pendingInv, fa.X)
		}
	} else {
		e.typeInvAfterStore(av.Addr, x.Pos(), nil)
	}
}

// moreStoresToSameObject: the store is followed, in the same block and with no call in between, by another store
// to a field of the same object. Such a run of stores is one update of the object: its invariant (which may relate
// several fields) is checked after the last store of the run. The invariant is only relied upon at calls, returns
// and loads of the object from the heap, none of which happens inside the run.
func (e *Enc) moreStoresToSameObject(x *ssa.Store) bool {
	fa, ok := x.Addr.(*ssa.FieldAddr)
	if !ok {
		return false
	}
	b := x.Block()
	after := false
	for _, in := range b.Instrs {
		if in == ssa.Instruction(x) {
			after = true
			continue
		}
		if !after {
			continue
		}
		switch y := in.(type) {
		case *ssa.Store:
			if fb, ok := y.Addr.(*ssa.FieldAddr); ok && fb.X == fa.X {
				return true
			}
		case *ssa.FieldAddr, *ssa.UnOp, *ssa.BinOp, *ssa.Convert, *ssa.ChangeType, *ssa.DebugRef, *ssa.IndexAddr, *ssa.Index, *ssa.Field, *ssa.Extract, *ssa.MakeInterface, *ssa.Slice, *ssa.Lookup, *ssa.ChangeInterface, *ssa.Phi:
			_ = y
		default:
			return false
		}
	}
	return false
}

func (e *Enc) encodeUnOp(x *ssa.UnOp) {
	switch x.Op {
	case token.MUL: // load
		av := e.valOf(x.X)
		elem := derefType(x.X.Type())
		if av.Addr == nil {
			if _, ok := elem.Underlying().(*types.Struct); ok {
				e.bind(x, e.loadStructAt(av.T, elem))
				return
			}
			a := &Addr{Kind: "wild", Base: av.T, Elem: elem}
			c := e.bind(x, e.load(a))
			e.assume(e.typeInv(c, elem, e.cur.now))
			return
		}
		e.guardObligation(av.Addr, x.Pos(), "read")
		c := e.bind(x, e.load(av.Addr))
		e.assume(e.typeInv(c, elem, e.cur.now))
		e.assumeLoadedInv(c, elem)
	case token.NOT:
		e.bind(x, Not(e.termOf(x.X)))
	case token.SUB:
		v := e.termOf(x.X)
		if v.Sort == SF64 {
			e.bind(x, App(SF64, "fp.neg", v))
		} else {
			e.bind(x, e.wrap(Neg(v), x.Type(), false))
		}
	case token.XOR:
		v := e.termOf(x.X)
		// ^x == -x-1 for signed; for unsigned max-x
		if isUnsigned(x.Type()) {
			_, hi, _ := intRange(x.Type())
			e.bind(x, Sub(BigLit(hi), v))
		} else {
			e.bind(x, Sub(Neg(v), IntLit(1)))
		}
	case token.ARROW:
		e.note("channel receive unsupported")
		e.havocVal(x)
	default:
		e.note("unsupported unop %s", x.Op)
		e.havocVal(x)
	}
}

func (e *Enc) wrap(t Term, typ types.Type, mul bool) Term {
	w := wrapFn(typ)
	if w == "" {
		return t
	}
	if w == "wrap64" && mul {
		w = "wrapmod64"
	}
	return App(SInt, w, t)
}

func (e *Enc) encodeBinOp(x *ssa.BinOp) {
	a := e.termOf(x.X)
	b := e.termOf(x.Y)
	xt := x.X.Type()
	if a.Sort == SF64 {
		e.encodeFloatOp(x, a, b)
		return
	}
	if a.Sort == SStr {
		switch x.Op {
		case token.ADD:
			c := e.bind(x, App(SStr, "str_concat", a, b))
			e.assume(Eq(StrLen(c), Add(StrLen(a), StrLen(b))))
			e.concatFacts(c, a, b)
		case token.EQL:
			e.bind(x, e.strEq(a, b))
		case token.NEQ:
			e.bind(x, Not(e.strEq(a, b)))
		case token.LSS:
			e.bind(x, App(SBool, "str_lt", a, b))
		case token.GTR:
			e.bind(x, App(SBool, "str_lt", b, a))
		case token.LEQ:
			e.bind(x, Not(App(SBool, "str_lt", b, a)))
		case token.GEQ:
			e.bind(x, Not(App(SBool, "str_lt", a, b)))
		default:
			e.havocVal(x)
		}
		return
	}
	if a.Sort == SBool {
		switch x.Op {
		case token.EQL:
			e.bind(x, Eq(a, b))
		case token.NEQ:
			e.bind(x, Ne(a, b))
		case token.AND, token.LAND:
			e.bind(x, And(a, b))
		case token.OR, token.LOR:
			e.bind(x, Or(a, b))
		default:
			e.havocVal(x)
		}
		return
	}
	if a.Sort != SInt {
		// struct / slice comparison etc.
		switch x.Op {
		case token.EQL:
			e.bind(x, Eq(a, b))
		case token.NEQ:
			e.bind(x, Ne(a, b))
		default:
			e.havocVal(x)
		}
		return
	}
	switch x.Op {
	case token.ADD:
		e.bind(x, e.wrap(Add(a, b), x.Type(), false))
	case token.SUB:
		e.bind(x, e.wrap(Sub(a, b), x.Type(), false))
	case token.MUL:
		e.bind(x, e.wrap(Mul(a, b), x.Type(), true))
	case token.QUO:
		e.oblige("divzero", "", x.Pos(), Ne(b, IntLit(0)), nil, "integer division by zero")
		e.bind(x, e.wrap(App(SInt, "gdiv", a, b), x.Type(), false))
	case token.REM:
		e.oblige("divzero", "", x.Pos(), Ne(b, IntLit(0)), nil, "integer modulo by zero")
		e.bind(x, App(SInt, "grem", a, b))
	case token.EQL:
		e.bind(x, e.refEq(a, b, xt))
	case token.NEQ:
		e.bind(x, Not(e.refEq(a, b, xt)))
	case token.LSS:
		e.bind(x, Lt(a, b))
	case token.LEQ:
		e.bind(x, Le(a, b))
	case token.GTR:
		e.bind(x, Gt(a, b))
	case token.GEQ:
		e.bind(x, Ge(a, b))
	case token.AND:
		c := e.bind(x, App(SInt, "bit_and", a, b))
		e.assume(Implies(Ge(b, IntLit(0)), And(Ge(c, IntLit(0)), Le(c, b))))
		e.assume(Implies(Ge(a, IntLit(0)), And(Ge(c, IntLit(0)), Le(c, a))))
	case token.OR:
		c := e.bind(x, App(SInt, "bit_or", a, b))
		e.assume(e.typeInv(c, x.Type(), e.cur.now))
	case token.XOR:
		c := e.bind(x, App(SInt, "bit_xor", a, b))
		e.assume(e.typeInv(c, x.Type(), e.cur.now))
	case token.AND_NOT:
		c := e.bind(x, App(SInt, "bit_andnot", a, b))
		e.assume(e.typeInv(c, x.Type(), e.cur.now))
	case token.SHL:
		c := e.bind(x, App(SInt, "bit_shl", a, b))
		e.assume(e.typeInv(c, x.Type(), e.cur.now))
	case token.SHR:
		c := e.bind(x, App(SInt, "bit_shr", a, b))
		e.assume(e.typeInv(c, x.Type(), e.cur.now))
		e.assume(Implies(Ge(a, IntLit(0)), And(Ge(c, IntLit(0)), Le(c, a))))
	default:
		e.note("unsupported binop %s", x.Op)
		e.havocVal(x)
	}
}

func (e *Enc) refEq(a, b Term, t types.Type) Term { return Eq(a, b) }

func (e *Enc) strEq(a, b Term) Term {
	if a.S == "str_empty" {
		return Eq(StrLen(b), IntLit(0))
	}
	if b.S == "str_empty" {
		return Eq(StrLen(a), IntLit(0))
	}
	return Eq(a, b)
}

func (e *Enc) concatFacts(c, a, b Term) {
	q1 := fmt.Sprintf("(forall ((qi Int)) (! (=> (and (>= qi 0) (< qi (str_len %s))) (= (str_at %s qi) (str_at %s qi))) :pattern ((str_at %s qi))))", a.S, c.S, a.S, c.S)
	q2 := fmt.Sprintf("(forall ((qi Int)) (! (=> (and (>= qi (str_len %s)) (< qi (str_len %s))) (= (str_at %s qi) (str_at %s (- qi (str_len %s))))) :pattern ((str_at %s qi))))", a.S, c.S, c.S, b.S, a.S, c.S)
	e.assume(mk(SBool, q1))
	e.assume(mk(SBool, q2))
}

func (e *Enc) encodeFloatOp(x *ssa.BinOp, a, b Term) {
	switch x.Op {
	case token.ADD:
		e.bind(x, App(SF64, "fp.add RNE", a, b))
	case token.SUB:
		e.bind(x, App(SF64, "fp.sub RNE", a, b))
	case token.MUL:
		e.bind(x, App(SF64, "fp.mul RNE", a, b))
	case token.QUO:
		e.bind(x, App(SF64, "fp.div RNE", a, b))
	case token.EQL:
		e.bind(x, App(SBool, "fp.eq", a, b))
	case token.NEQ:
		e.bind(x, Not(App(SBool, "fp.eq", a, b)))
	case token.LSS:
		e.bind(x, App(SBool, "fp.lt", a, b))
	case token.LEQ:
		e.bind(x, App(SBool, "fp.leq", a, b))
	case token.GTR:
		e.bind(x, App(SBool, "fp.gt", a, b))
	case token.GEQ:
		e.bind(x, App(SBool, "fp.geq", a, b))
	default:
		e.havocVal(x)
	}
}

func isUnsafePointer(t types.Type) bool {
	b, ok := t.Underlying().(*types.Basic)
	return ok && b.Kind() == types.UnsafePointer
}

func (e *Enc) encodeConvert(x *ssa.Convert) {
	from := x.X.Type().Underlying()
	to := x.Type().Underlying()
	if isUnsafePointer(from) || isUnsafePointer(to) {
		// the typed heap model (immutable strings, no aliasing between values of different types) does not cover
		// reinterpreting memory: nothing proved about this function survives such a conversion
		e.oblige("unsafe", "pointer-conversion", x.Pos(), False, nil, "unsafe.Pointer conversion: the memory model of the proofs (immutable strings, typed non-overlapping objects) does not hold")
		e.havocVal(x)
		return
	}
	v := e.termOf(x.X)
	fb, fok := from.(*types.Basic)
	tb, tok := to.(*types.Basic)
	switch {
	case fok && tok && fb.Info()&types.IsInteger != 0 && tb.Info()&types.IsInteger != 0:
		flo, fhi, _ := intRange(from)
		tlo, thi, _ := intRange(to)
		if bigLE(tlo, flo) && bigLE(fhi, thi) {
			e.bind(x, v) // widening
		} else {
			w := wrapFn(to)
			if w == "wrap64" {
				w = "wrapmod64"
			}
			e.bind(x, App(SInt, w, v))
		}
	case fok && tok && fb.Info()&types.IsInteger != 0 && tb.Info()&types.IsFloat != 0:
		c := e.bind(x, App(SF64, "i2f", v))
		// sign facts of the (otherwise uninterpreted) conversion
		zero := mk(SF64, "(_ +zero 11 53)")
		e.assume(And(Not(App(SBool, "fp.isNaN", c)), Not(App(SBool, "fp.isInfinite", c))))
		e.assume(Implies(Ge(v, IntLit(0)), App(SBool, "fp.geq", c, zero)))
		e.assume(Implies(Le(v, IntLit(0)), App(SBool, "fp.leq", c, zero)))
		e.assume(Eq(Eq(v, IntLit(0)), App(SBool, "fp.isZero", c)))
		e.assume(Implies(Le(v, BigLit(maxLenStr)), App(SBool, "fp.leq", c, mk(SF64, "((_ to_fp 11 53) RNE 4611686018427387904.0)"))))
	case fok && tok && fb.Info()&types.IsFloat != 0 && tb.Info()&types.IsInteger != 0:
		c := e.bind(x, App(SInt, "f2i", v))
		e.assume(e.typeInv(c, x.Type(), e.cur.now))
		zero := mk(SF64, "(_ +zero 11 53)")
		if !isUnsigned(x.Type()) {
			// truncation keeps the sign for in-range values; out-of-range/NaN results are implementation-defined but
			// on amd64/arm64 they are the minimum integer or saturate, never a positive value for a negative input
			e.assume(Implies(And(App(SBool, "fp.geq", v, zero), App(SBool, "fp.lt", v, mk(SF64, "((_ to_fp 11 53) RNE 9223372036854775807.0)"))), Ge(c, IntLit(0))))
		}
	case fok && tok && fb.Info()&types.IsFloat != 0 && tb.Info()&types.IsFloat != 0:
		if tb.Kind() == types.Float32 && fb.Kind() != types.Float32 {
			e.bind(x, App(SF64, "f32round", v))
		} else {
			e.bind(x, v)
		}
	case fok && tok && fb.Info()&types.IsInteger != 0 && tb.Info()&types.IsString != 0:
		c := e.bind(x, App(SStr, "str_from_rune", v))
		e.assume(And(Ge(StrLen(c), IntLit(1)), Le(StrLen(c), IntLit(4))))
		e.assume(Implies(And(Ge(v, IntLit(0)), Lt(v, IntLit(128))), And(Eq(StrLen(c), IntLit(1)), Eq(StrAt(c, IntLit(0)), v))))
	case fok && fb.Info()&types.IsString != 0:
		// string -> []byte / []rune
		sl, _ := to.(*types.Slice)
		if sl == nil {
			e.havocVal(x)
			return
		}
		r := e.newRef("conv")
		eb, _ := sl.Elem().Underlying().(*types.Basic)
		var ln Term
		if eb != nil && eb.Kind() == types.Int32 {
			ln = App(SInt, "rune_count", v)
			e.assume(And(Ge(ln, IntLit(0)), Le(ln, StrLen(v))))
			e.assume(Implies(Gt(StrLen(v), IntLit(0)), Gt(ln, IntLit(0))))
		} else {
			ln = StrLen(v)
			// bytes equal
			k := e.p.elemKey(sl.Elem())
			q := fmt.Sprintf("(forall ((qi Int)) (! (=> (and (>= qi 0) (< qi (str_len %s))) (= (select (select %s %s) qi) (str_at %s qi))) :pattern ((select (select %s %s) qi))))", v.S, e.heapGet(e.cur, k).S, r.S, v.S, e.heapGet(e.cur, k).S, r.S)
			_ = q
		}
		c := e.bind(x, SliceMk(r, IntLit(0), ln, ln))
		_ = c
		if eb != nil && eb.Kind() == types.Int32 {
			// the runes of a string are a function of the string
			k := e.p.elemKey(sl.Elem())
			e.declareFun("runes_of", []Sort{SStr}, ArraySort(SInt, SInt))
			h := e.heapGet(e.cur, k)
			e.heapSet(e.cur, k, e.define("H_"+sanitize(k), Store(h, r, App(ArraySort(SInt, SInt), "runes_of", v))))
		}
		// ghost link from the new backing array to the string it was made from
		e.declareFun("str_of_arr", []Sort{SInt}, SStr)
		e.assert(Eq(App(SStr, "str_of_arr", r), v))
	case tok && tb.Info()&types.IsString != 0:
		// []byte / []rune -> string
		c := e.havocVal(x)
		if sl, ok := from.(*types.Slice); ok {
			eb, _ := sl.Elem().Underlying().(*types.Basic)
			if eb != nil && eb.Kind() == types.Uint8 {
				e.assume(Eq(StrLen(c), SliceLen(v)))
			} else if eb != nil && eb.Kind() == types.Int32 {
				// the string made from runes is a function of the rune sequence (array contents, offset, length)
				e.declareFun("str_from_runes", []Sort{ArraySort(SInt, SInt), SInt, SInt}, SStr)
				k := e.p.elemKey(sl.Elem())
				e.assume(Eq(c, App(SStr, "str_from_runes", Select(e.heapGet(e.cur, k), SliceArr(v)), SliceOff(v), SliceLen(v))))
				e.assume(And(Ge(StrLen(c), SliceLen(v)), Le(StrLen(c), Mul(IntLit(4), SliceLen(v)))))
				e.assume(Eq(App(SInt, "rune_count", c), SliceLen(v)))
			} else {
				e.assume(And(Ge(StrLen(c), SliceLen(v)), Le(StrLen(c), Mul(IntLit(4), SliceLen(v)))))
				e.assume(Eq(App(SInt, "rune_count", c), SliceLen(v)))
			}
		}
	default:
		if e.sortOf(x.X.Type()) == e.sortOf(x.Type()) {
			e.bind(x, v)
		} else {
			e.note("unsupported conversion %s -> %s", x.X.Type(), x.Type())
			e.havocVal(x)
		}
	}
}

// convSrc remembers the string a []rune/[]byte conversion came from (ghost, for contracts).
func (e *Enc) convSrc(x ssa.Value, s Term) {}

func bigLE(a, b string) bool {
	x, _ := new(big.Int).SetString(a, 10)
	y, _ := new(big.Int).SetString(b, 10)
	return x.Cmp(y) <= 0
}

func (e *Enc) encodeMakeClosure(x *ssa.MakeClosure) {
	r := e.newRef("closure")
	fn := unwrapSynthetic(x.Fn.(*ssa.Function))
	e.declareFun("fn_id", []Sort{SInt}, SInt)
	e.assert(Eq(App(SInt, "fn_id", r), IntLit(int64(e.p.FuncID(fn)))))
	for i, b := range x.Bindings {
		bt := e.termOf(b)
		capFn := fmt.Sprintf("cap_%s_%d", sanitize(e.p.FuncName(fn)), i)
		e.declareFun(capFn, []Sort{SInt}, bt.Sort)
		e.assert(Eq(App(bt.Sort, capFn, r), bt))
	}
	e.bind(x, r)
}

func (e *Enc) boxFns(t types.Type) (box, unbox string, srt Sort, id int) {
	srt = e.sortOf(t)
	id = e.p.TypeID(t)
	box = fmt.Sprintf("box_%d", id)
	unbox = fmt.Sprintf("unbox_%d", id)
	if !e.boxDecl[box] {
		e.boxDecl[box] = true
		e.emit(fmt.Sprintf("; type id %d = %s", id, e.p.relTypeString(t)))
		e.declareFun(box, []Sort{srt}, SInt)
		e.declareFun(unbox, []Sort{SInt}, srt)
		e.knownTypeIDs[id] = t
	}
	return
}

func (e *Enc) encodeMakeInterface(x *ssa.MakeInterface) {
	if props, ok := e.p.Contracts.NonNil["B|"+e.p.relTypeString(x.X.Type())]; ok {
		e.oblige("nonnil", "box/"+e.p.relTypeString(x.X.Type()), x.Pos(), Ne(e.termOf(x.X), IntLit(0)), props, "a pointer of this type is never nil when it is put into an interface")
	}
	v := e.termOf(x.X)
	e.bind(x, e.boxValue(v, x.X.Type()))
}

func (e *Enc) boxValue(v Term, t types.Type) Term {
	box, unbox, srt, id := e.boxFns(t)
	b := App(SInt, box, v)
	e.assert(Eq(DynType(b), IntLit(int64(id))))
	e.assert(Eq(App(srt, unbox, b), v))
	e.assert(Ne(b, IntLit(0)))
	// a box is as old as its payload (pointers) or timeless (scalars)
	if isPointerLike(t) {
		e.assert(Eq(Birth(b), Birth(v)))
	} else if _, ok := t.Underlying().(*types.Slice); ok {
		e.assert(Eq(Birth(b), Birth(SliceArr(v))))
	} else {
		e.assert(Lt(Birth(b), IntLit(0)))
	}
	return b
}

func (e *Enc) encodeTypeAssert(x *ssa.TypeAssert) {
	v := e.termOf(x.X)
	at := x.AssertedType
	// execution code must not inspect the dynamic type of the writer it is given (C14: the sequence of writes
	// is a function of template and context only)
	if e.frameOn() {
		if n, ok := x.X.Type().(*types.Named); ok && (n.Obj().Name() == "TemplateWriter" || (n.Obj().Pkg() != nil && n.Obj().Pkg().Path() == "io" && n.Obj().Name() == "Writer")) {
			e.oblige("opaque", "writer-type-inspected", x.Pos(), False, []string{"C14"}, "execution must not branch on the dynamic type of its writer")
		}
	}
	var okT, val Term
	if types.IsInterface(at) {
		okT = And(Ne(v, IntLit(0)), e.implements(DynType(v), at))
		val = v
	} else {
		_, unbox, srt, id := e.boxFns(at)
		okT = Eq(DynType(v), IntLit(int64(id)))
		val = App(srt, unbox, v)
	}
	if props, ok := e.p.Contracts.NonNil["B|"+e.p.relTypeString(at)]; ok && !types.IsInterface(at) {
		_ = props
		e.assume(Implies(okT, Ne(val, IntLit(0))))
	}
	if !types.IsInterface(at) && isPointerLike(at) {
		// lastassert("T"): the value of the latest assertion to pointer type T on this path
		e.cur.heap["lastta|"+e.p.relTypeString(at)] = e.define("lastta", val)
		// ... and what its fields held at that moment: lastassert("T", "field")
		if pt, ok := at.Underlying().(*types.Pointer); ok {
			if st, ok := pt.Elem().Underlying().(*types.Struct); ok {
				if _, local, _ := e.p.structSortName(pt.Elem()); local {
					for i := 0; i < st.NumFields(); i++ {
						fk := e.p.fieldKey(pt.Elem(), i)
						e.cur.heap["lasttaf|"+e.p.relTypeString(at)+"|"+st.Field(i).Name()] = e.define("lasttaf", Select(e.heapGet(e.cur, fk), val))
					}
				}
			}
		}
	}
	if x.CommaOk {
		okc := e.fresh("ta_ok", SBool)
		e.assert(Eq(okc, okT))
		vc := e.fresh("ta_val", e.sortOf(at))
		e.assert(Eq(vc, Ite(okc, val, e.zero(at))))
		e.assume(e.typeInv(vc, at, e.cur.now))
		if !types.IsInterface(at) && isPointerLike(at) {
			e.assume(Implies(okc, Eq(Birth(vc), Birth(v))))
		}
		e.assumeLoadedInv(vc, at)
		e.vals[x] = Val{Tuple: []Val{{T: vc, Typ: at}, {T: okc, Typ: types.Typ[types.Bool]}}, Typ: x.Type()}
		return
	}
	e.oblige("typeassert", e.p.relTypeString(at), x.Pos(), okT, nil, "type assertion must hold")
	c := e.bind(x, val)
	e.assume(e.typeInv(c, at, e.cur.now))
	e.assumeLoadedInv(c, at)
}

// implements(dyn, I) as an uninterpreted predicate with facts for the types seen so far.
func (e *Enc) implements(dyn Term, iface types.Type) Term {
	name := "impl_" + sanitize(e.p.relTypeString(iface))
	e.declareFun(name, []Sort{SInt}, SBool)
	it := iface.Underlying().(*types.Interface)
	var ids []int
	for id := range e.knownTypeIDs {
		ids = append(ids, id)
	}
	sort.Ints(ids)
	for _, id := range ids {
		t := e.knownTypeIDs[id]
		key := fmt.Sprintf("%s/%d", name, id)
		if e.implDecl[key] {
			continue
		}
		e.implDecl[key] = true
		e.assert(Eq(App(SBool, name, IntLit(int64(id))), BoolLit(types.Implements(t, it))))
	}
	return App(SBool, name, dyn)
}

var _ = strings.Contains

func (e *Enc) seenKey(r *ssa.Range) string { return "gh|$seen|" + e.prefix + r.Name() }

// mapUpdateOrdinal: index of the map update among the map updates of the function, in source order.
func (e *Enc) mapUpdateOrdinal(x *ssa.MapUpdate) int {
	var all []*ssa.MapUpdate
	for _, b := range e.fn.Blocks {
		for _, in := range b.Instrs {
			if mu, ok := in.(*ssa.MapUpdate); ok {
				all = append(all, mu)
			}
		}
	}
	sort.SliceStable(all, func(i, j int) bool { return all[i].Pos() < all[j].Pos() })
	for i, mu := range all {
		if mu == x {
			return i
		}
	}
	return -1
}

// storeAtClauses: `at store[T.f] requires P(base, v)` / `at store[T.f]#k ...` obligations at the
// function's own stores to field f of struct T (k counts those stores in source order).
func (e *Enc) storeAtClauses(x *ssa.Store, a *Addr) {
	if e.fc == nil || e.prefix != "" || x.Parent() != e.fn {
		return
	}
	st := a.Struct.Underlying().(*types.Struct)
	want := "store[" + e.p.structKeyName(a.Struct) + "." + st.Field(a.Field).Name() + "]"
	any := false
	for _, at := range e.fc.At {
		if at.Callee == want || strings.HasPrefix(at.Callee, want+"#") {
			any = true
		}
	}
	if !any {
		return
	}
	// ordinal among the stores to this field
	type site struct {
		pos token.Pos
		in  *ssa.Store
	}
	var sites []site
	for _, b := range e.fn.Blocks {
		for _, in := range b.Instrs {
			s2, ok := in.(*ssa.Store)
			if !ok {
				continue
			}
			fa, ok := s2.Addr.(*ssa.FieldAddr)
			if !ok {
				continue
			}
			t2 := derefType(fa.X.Type())
			if t2 != nil && e.p.structKeyName(t2) == e.p.structKeyName(a.Struct) && fa.Field == a.Field {
				sites = append(sites, site{in.Pos(), s2})
			}
		}
	}
	sort.SliceStable(sites, func(i, j int) bool { return sites[i].pos < sites[j].pos })
	ord := -1
	for i, s2 := range sites {
		if s2.in == x {
			ord = i
		}
	}
	for i, at := range e.fc.At {
		if at.Callee != want && at.Callee != fmt.Sprintf("%s#%d", want, ord) {
			continue
		}
		e.atHit[i] = true
		env := e.fnEnv(e.cur)
		env.vars["base"] = TV{T: a.Base, Typ: types.NewPointer(a.Struct)}
		env.vars["v"] = TV{T: e.termOf(x.Val), Typ: x.Val.Type()}
		label := at.Clause.Label
		if label == "" {
			label = "a" + itoa(i)
		}
		t, err := env.Eval(at.Clause.Expr)
		if err != nil {
			e.contractError(e.name, at.Clause, err, x.Pos())
			continue
		}
		e.oblige("at", want+"/"+label, x.Pos(), t.T, at.Clause.Props, "at "+want+" requires "+at.Clause.Src)
	}
}
