package main

import (
	"bytes"
	"context"
	"encoding/json"
	"fmt"
	"os"
	"os/exec"
	"path/filepath"
	"regexp"
	"strconv"
	"strings"
	"time"
)

// Bounded stand-ins (DESIGN 11.8): functions whose behaviour is delegated to a regular expression cannot be
// brought under a contract (the engine has no theory of regexp matching). For those, and only for those, the
// check runs the REAL function on every string up to a stated length over a stated alphabet and compares
// with a reference written from the property statement. The result is labelled bounded in the evidence and
// is never counted among the discharged obligations. The test is injected into the package with an overlay.

type boundedDef struct {
	Prop      string `json:"prop"`
	Name      string `json:"name"`
	File      string `json:"file"`      // Go test source under /verif/bounded (package pongo2, func TestPvcBounded_<Name>)
	Bound     string `json:"bound"`     // human-readable bound
	Statement string `json:"statement"` // what is compared
	QuickN    int    `json:"quick_n"`   // maximal string length in the quick tier
	ThoroughN int    `json:"thorough_n"`
}

type boundedResult struct {
	Def      boundedDef
	Cases    int
	Failures int
	Fails    []string
	Ran      bool
	Output   string
	Seconds  float64
	N        int
	Source   string
}

func loadBounded(verifDir, prop string) []boundedDef {
	b, err := os.ReadFile(filepath.Join(verifDir, "bounded", "index.json"))
	if err != nil {
		return nil
	}
	var all []boundedDef
	if json.Unmarshal(b, &all) != nil {
		return nil
	}
	var out []boundedDef
	for _, d := range all {
		if d.Prop == prop {
			out = append(out, d)
		}
	}
	return out
}

var boundedResultRe = regexp.MustCompile(`BOUNDED-RESULT name=(\S+) cases=(\d+) failures=(\d+)`)

func runBounded(repo, verifDir string, d boundedDef, tier string) boundedResult {
	r := boundedResult{Def: d}
	src, err := os.ReadFile(filepath.Join(verifDir, "bounded", d.File))
	if err != nil {
		r.Output = "cannot read " + d.File + ": " + err.Error()
		return r
	}
	r.Source = string(src)
	n := d.QuickN
	if tier == "thorough" && d.ThoroughN > 0 {
		n = d.ThoroughN
	}
	r.N = n
	dir, err := os.MkdirTemp("", "pvcbounded")
	if err != nil {
		r.Output = err.Error()
		return r
	}
	defer os.RemoveAll(dir)
	tf := filepath.Join(dir, "zz_pvc_bounded_test.go")
	os.WriteFile(tf, src, 0o644)
	ov := map[string]any{"Replace": map[string]string{filepath.Join(repo, "zz_pvc_bounded_test.go"): tf}}
	ob, _ := json.Marshal(ov)
	ovf := filepath.Join(dir, "ov.json")
	os.WriteFile(ovf, ob, 0o644)
	ctx, cancel := context.WithTimeout(context.Background(), 400*time.Second)
	defer cancel()
	cmd := exec.CommandContext(ctx, "go", "test", "-overlay", ovf, "-vet=off", "-count=1", "-timeout", "300s", "-run", "^TestPvcBounded_"+d.Name+"$", "-v", ".")
	cmd.Dir = repo
	cmd.Env = append(os.Environ(), "GOFLAGS=-mod=mod", "GOPROXY=off", "GOSUMDB=off", "GOTOOLCHAIN=local", "PVC_BOUNDED_N="+strconv.Itoa(n))
	var out bytes.Buffer
	cmd.Stdout = &out
	cmd.Stderr = &out
	t0 := time.Now()
	cmd.Run()
	r.Seconds = time.Since(t0).Seconds()
	s := out.String()
	r.Output = tail(s, 3000)
	for _, l := range strings.Split(s, "\n") {
		if i := strings.Index(l, "BOUNDED-FAIL "); i >= 0 {
			if len(r.Fails) < 5 {
				r.Fails = append(r.Fails, strings.TrimSpace(l[i+13:]))
			}
		}
		if m := boundedResultRe.FindStringSubmatch(l); m != nil && m[1] == d.Name {
			r.Cases, _ = strconv.Atoi(m[2])
			r.Failures, _ = strconv.Atoi(m[3])
			r.Ran = true
		}
	}
	return r
}

// boundedViolation writes the replay file for a failed bounded check and returns the VIOLATION line.
func boundedViolation(pd *PropDef, r boundedResult) string {
	dir := filepath.Join(replayRoot, pd.ID)
	os.MkdirAll(dir, 0o755)
	path := filepath.Join(dir, "bounded_"+sanitize(r.Def.Name)+".json")
	rf := map[string]any{
		"property":   pd.ID,
		"obligation": "bounded/" + r.Def.Name,
		"kind":       "bounded",
		"statement":  r.Def.Statement,
		"bound":      fmt.Sprintf("%s (maximal length %d)", r.Def.Bound, r.N),
		"ran":        r.Ran,
		"cases":      r.Cases,
		"failures":   r.Failures,
		"failing_inputs": r.Fails,
		"output":     r.Output,
		"test_source": r.Source,
	}
	line := fmt.Sprintf("VIOLATION property=%s replay=%s obligation=bounded/%s", pd.ID, path, r.Def.Name)
	if !r.Ran || len(r.Fails) == 0 {
		rf["note"] = "no-failing-input-found: the bounded check could not be run to completion against this tree (see output)"
		line += " no-failing-input-found"
	}
	b, _ := json.MarshalIndent(rf, "", " ")
	os.WriteFile(path, b, 0o644)
	return line
}
