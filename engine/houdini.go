package main

// candCheck records the outcome of a candidate (inferred) loop invariant; candidates
// are not obligations of any property: a failing candidate is simply dropped.
func (e *Enc) candCheck(li *loopInfo, cd *candInv, phase string, goal Term) {
	ob := e.obligeNamed(e.name+"/cand/loop"+itoa(li.index)+"/"+cd.desc+"/"+phase, "cand", cd.desc, 0, goal, nil, "candidate invariant "+cd.desc)
	ob.cand = cd
}
