package main

import (
	"fmt"
	"go/types"

	"golang.org/x/tools/go/ssa"
)

// Inferred loop invariants (Houdini): candidate facts about loop-carried values are
// assumed at the loop head and checked like any invariant; candidates whose check fails
// are dropped and the function is re-encoded until all surviving candidates verify.
// Candidates are auxiliary proof obligations ("cand"); they belong to no property.

func (e *Enc) candCheck(li *loopInfo, cd *candInv, phase string, goal Term) {
	ob := e.obligeNamed(e.name+"/cand/loop"+itoa(li.index)+"/"+cd.desc+"/"+phase+"#"+itoa(e.ordinals["cand/"+cd.desc+phase]), "cand", cd.desc, 0, goal, nil, "inferred invariant "+cd.desc)
	e.ordinals["cand/"+cd.desc+phase]++
	ob.cand = cd
	ob.candKey = fmt.Sprintf("%d/%s", li.index, cd.desc)
}

func (e *Enc) phiVal(phi *ssa.Phi, bind map[ssa.Value]Val) Term {
	if bind != nil {
		if v, ok := bind[phi]; ok {
			return v.T
		}
	}
	return e.vals[phi].T
}

func (e *Enc) genCandidates() {
	for _, li := range e.loopList {
		li.cands = nil
		for _, in := range li.header.Instrs {
			phi, ok := in.(*ssa.Phi)
			if !ok {
				break
			}
			add := func(desc string, mk func(e *Enc, bind map[ssa.Value]Val, st *State) Term) {
				key := fmt.Sprintf("%d/%s", li.index, desc)
				if e.killedCands[key] {
					return
				}
				li.cands = append(li.cands, &candInv{desc: desc, mk: mk})
			}
			switch u := phi.Type().Underlying().(type) {
			case *types.Basic:
				if u.Info()&types.IsInteger == 0 {
					continue
				}
				// entry values that are constants
				for i, p := range li.header.Preds {
					if li.blocks[p] {
						continue
					}
					if c, ok := phi.Edges[i].(*ssa.Const); ok && c.Value != nil {
						ct := e.constTerm(c)
						add(phi.Name()+">="+ct.S, func(e *Enc, bind map[ssa.Value]Val, st *State) Term { return Ge(e.phiVal(phi, bind), ct) })
						add(phi.Name()+"<="+ct.S, func(e *Enc, bind map[ssa.Value]Val, st *State) Term { return Le(e.phiVal(phi, bind), ct) })
					} else if ev := phi.Edges[i]; ev != nil {
						// entry value computed before the loop
						ev := ev
						get := func(e *Enc) (Term, bool) {
							v, ok := e.vals[ev]
							if !ok || v.T.Sort != SInt {
								return Term{}, false
							}
							return v.T, true
						}
						add(phi.Name()+">=entry", func(e *Enc, bind map[ssa.Value]Val, st *State) Term {
							t, ok := get(e)
							if !ok {
								return True
							}
							return Ge(e.phiVal(phi, bind), t)
						})
						add(phi.Name()+"<=entry", func(e *Enc, bind map[ssa.Value]Val, st *State) Term {
							t, ok := get(e)
							if !ok {
								return True
							}
							return Le(e.phiVal(phi, bind), t)
						})
					}
				}
				// upper bounds by lengths of slices/strings compared in the loop
				for _, other := range e.loopBoundTerms(li, phi) {
					other := other
					add(phi.Name()+"<="+other.desc, func(e *Enc, bind map[ssa.Value]Val, st *State) Term {
						t, ok := other.mk(e)
						if !ok {
							return True
						}
						return Le(e.phiVal(phi, bind), t)
					})
					add(phi.Name()+"<"+other.desc, func(e *Enc, bind map[ssa.Value]Val, st *State) Term {
						t, ok := other.mk(e)
						if !ok {
							return True
						}
						return Lt(e.phiVal(phi, bind), t)
					})
				}
			case *types.Slice:
				add(phi.Name()+".freshOrNil", func(e *Enc, bind map[ssa.Value]Val, st *State) Term {
					v := e.phiVal(phi, bind)
					return Or(Eq(SliceArr(v), IntLit(0)), Ge(Birth(SliceArr(v)), e.now0))
				})
				for _, in2 := range li.header.Instrs {
					ip, ok := in2.(*ssa.Phi)
					if !ok {
						break
					}
					if b, ok := ip.Type().Underlying().(*types.Basic); !ok || b.Info()&types.IsInteger == 0 {
						continue
					}
					add("len("+phi.Name()+")=="+ip.Name(), func(e *Enc, bind map[ssa.Value]Val, st *State) Term {
						return Eq(SliceLen(e.phiVal(phi, bind)), e.phiVal(ip, bind))
					})
					add("len("+phi.Name()+")=="+ip.Name()+"+1", func(e *Enc, bind map[ssa.Value]Val, st *State) Term {
						return Eq(SliceLen(e.phiVal(phi, bind)), Add(e.phiVal(ip, bind), IntLit(1)))
					})
				}
			case *types.Pointer:
				add(phi.Name()+".freshOrNil", func(e *Enc, bind map[ssa.Value]Val, st *State) Term {
					v := e.phiVal(phi, bind)
					return Or(Eq(v, IntLit(0)), Ge(Birth(v), e.now0))
				})
				add(phi.Name()+".nonNil", func(e *Enc, bind map[ssa.Value]Val, st *State) Term {
					return Ne(e.phiVal(phi, bind), IntLit(0))
				})
			}
		}
	}
}

type boundTerm struct {
	desc string
	mk   func(e *Enc) (Term, bool)
}

// loopBoundTerms: values the phi is compared against in the loop (i < n, i < len(s)) that are defined outside the loop.
func (e *Enc) loopBoundTerms(li *loopInfo, phi *ssa.Phi) []boundTerm {
	var out []boundTerm
	seen := map[ssa.Value]bool{}
	var related func(v ssa.Value) bool
	related = func(v ssa.Value) bool {
		if v == phi {
			return true
		}
		if b, ok := v.(*ssa.BinOp); ok && li.blocks[b.Block()] {
			if c, ok := b.Y.(*ssa.Const); ok && c.Value != nil {
				return related(b.X)
			}
		}
		return false
	}
	for b := range li.blocks {
		for _, in := range b.Instrs {
			bo, ok := in.(*ssa.BinOp)
			if !ok {
				continue
			}
			var other ssa.Value
			switch bo.Op.String() {
			case "<", "<=", ">", ">=", "!=", "==":
				if related(bo.X) {
					other = bo.Y
				} else if related(bo.Y) {
					other = bo.X
				}
			}
			if other == nil || seen[other] {
				continue
			}
			if oi, ok := other.(ssa.Instruction); ok && li.blocks[oi.Block()] {
				// the result of a pure function applied to values defined outside the loop
				if call, ok := other.(*ssa.Call); ok {
					name, _, _ := e.calleeName(call.Common())
					if fc := e.p.Contracts.Funcs[name]; fc != nil && fc.Pure && e.p.SortOf(other.Type()) == SInt {
						outside := true
						var argVals []ssa.Value
						if call.Common().IsInvoke() {
							argVals = append(argVals, call.Common().Value)
						}
						argVals = append(argVals, call.Common().Args...)
						for _, a := range argVals {
							if ai, ok := a.(ssa.Instruction); ok && li.blocks[ai.Block()] {
								outside = false
							}
						}
						if outside {
							seen[other] = true
							out = append(out, boundTerm{desc: lastSeg(name) + "()", mk: func(e *Enc) (Term, bool) {
								var as []Term
								for _, a := range argVals {
									v, ok := e.vals[a]
									if !ok && !isConstLike(a) {
										return Term{}, false
									}
									_ = v
									as = append(as, e.termOf(a))
								}
								return e.pureApp(fc, name, 0, as, SInt), true
							}})
							continue
						}
					}
				}
				// a field of an object defined outside the loop, re-read in every iteration: use the field itself
				if u, ok := other.(*ssa.UnOp); ok {
					if fa, ok := u.X.(*ssa.FieldAddr); ok {
						if bi, ok := fa.X.(ssa.Instruction); !ok || !li.blocks[bi.Block()] {
							stT := derefType(fa.X.Type())
							if _, local, _ := e.p.structSortName(stT); local && e.p.SortOf(other.Type()) == SInt {
								seen[other] = true
								fa := fa
								out = append(out, boundTerm{desc: fa.X.Name() + "." + stT.Underlying().(*types.Struct).Field(fa.Field).Name(), mk: func(e *Enc) (Term, bool) {
									bv, ok := e.vals[fa.X]
									if !ok || bv.T.S == "" {
										return Term{}, false
									}
									return Select(e.heapGet(e.cur, e.p.fieldKey(stT, fa.Field)), bv.T), true
								}})
							}
						}
					}
				}
				continue
			}
			if _, isConst := other.(*ssa.Const); isConst {
				continue
			}
			seen[other] = true
			ov := other
			out = append(out, boundTerm{desc: ov.Name(), mk: func(e *Enc) (Term, bool) {
				v, ok := e.vals[ov]
				if !ok || v.T.Sort != SInt {
					return Term{}, false
				}
				return v.T, true
			}})
		}
	}
	return out
}

// Houdini runs the candidate elimination loop and leaves e encoded with the surviving candidates.
func (e *Enc) Houdini(opts SolveOpts) {
	e.killedCands = map[string]bool{}
	e.opts.Houdini = true
	for round := 0; round < 8; round++ {
		e.Encode()
		n := 0
		for _, ob := range e.obs {
			if ob.Kind == "cand" {
				n++
			}
		}
		if n == 0 {
			return
		}
		// solve only the candidate obligations
		saved := e.obs
		var nd []*Obligation
		for _, ob := range e.obs {
			if !ob.Derived {
				nd = append(nd, ob)
			}
		}
		e.obs = nd
		var cands []*Obligation
		for _, ob := range e.obs {
			if ob.Kind == "cand" {
				cands = append(cands, ob)
			}
		}
		hopts := opts
		hopts.PrimaryMs = 700
		solveSubset(e, cands, hopts)
		e.obs = saved
		killed := 0
		for _, ob := range cands {
			if ob.Result != "unsat" {
				if !e.killedCands[ob.candKey] {
					e.killedCands[ob.candKey] = true
					killed++
				}
			}
		}
		if killed == 0 {
			return
		}
	}
	// did not converge: drop all remaining candidates
	for _, li := range e.loopList {
		for _, cd := range li.cands {
			e.killedCands[fmt.Sprintf("%d/%s", li.index, cd.desc)] = true
		}
	}
	e.Encode()
}

func isConstLike(v ssa.Value) bool {
	switch v.(type) {
	case *ssa.Const, *ssa.Global, *ssa.Function:
		return true
	}
	return false
}
