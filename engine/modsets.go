package main

import (
	"fmt"
	"os"
	"go/types"
	"strings"

	"golang.org/x/tools/go/callgraph/cha"
	"golang.org/x/tools/go/callgraph/vta"
	"golang.org/x/tools/go/ssa"
	"golang.org/x/tools/go/ssa/ssautil"
)

// Write-set inference: for every function the set of heap keys it (or anything it
// may call) can write. It is a syntactic over-approximation used to havoc the heap
// at call sites whose callee has no explicit `assigns` clause.

type modInfo struct {
	direct  KeySet
	callees map[*ssa.Function]bool
	dynSigs []*types.Signature // calls through function values
	ifaceCalls []ifaceCall
	reflective bool // may call arbitrary address-taken functions / exported methods
	owner *ssa.Function
}

type ifaceCall struct {
	iface  *types.Interface
	method string
}

func (p *Prog) promotable(a *ssa.Alloc) bool {
	switch a.Type().Underlying().(*types.Pointer).Elem().Underlying().(type) {
	case *types.Struct, *types.Array:
		return false
	}
	refs := a.Referrers()
	if refs == nil {
		return false
	}
	for _, r := range *refs {
		switch x := r.(type) {
		case *ssa.UnOp:
			if x.X != a {
				return false
			}
		case *ssa.Store:
			if x.Addr != a || x.Val == a {
				return false
			}
		case *ssa.DebugRef:
		default:
			return false
		}
	}
	return true
}

func (p *Prog) cvKey(a *ssa.Alloc) string {
	fn := a.Parent()
	idx := 0
	for _, b := range fn.Blocks {
		for _, in := range b.Instrs {
			if al, ok := in.(*ssa.Alloc); ok {
				if al == a {
					goto done
				}
				idx++
			}
		}
	}
done:
	name := a.Comment
	if name == "" {
		name = "tmp"
	}
	elem := a.Type().Underlying().(*types.Pointer).Elem()
	return "CV|" + p.FuncName(fn) + "|" + sanitize(name) + "#" + itoa(idx) + "|" + string(p.SortOf(elem))
}

func itoa(i int) string {
	if i == 0 {
		return "0"
	}
	neg := i < 0
	if neg {
		i = -i
	}
	var b []byte
	for i > 0 {
		b = append([]byte{byte('0' + i%10)}, b...)
		i /= 10
	}
	if neg {
		b = append([]byte{'-'}, b...)
	}
	return string(b)
}

// resolveFreeVar finds the Alloc bound to a free variable (or nil).
func (p *Prog) resolveFreeVar(fv *ssa.FreeVar) ssa.Value {
	fn := fv.Parent()
	parent := fn.Parent()
	if parent == nil {
		return nil
	}
	idx := -1
	for i, f := range fn.FreeVars {
		if f == fv {
			idx = i
		}
	}
	if idx < 0 {
		return nil
	}
	for _, b := range parent.Blocks {
		for _, in := range b.Instrs {
			if mc, ok := in.(*ssa.MakeClosure); ok && mc.Fn == fn {
				if idx < len(mc.Bindings) {
					return mc.Bindings[idx]
				}
			}
		}
	}
	return nil
}

// storeKeys returns the heap keys possibly written by a store through addr of a value of type valT.
func (p *Prog) storeKeys(addr ssa.Value) []string {
	elemT := derefType(addr.Type())
	switch a := addr.(type) {
	case *ssa.FieldAddr:
		// nested?
		switch a.X.(type) {
		case *ssa.FieldAddr, *ssa.IndexAddr:
			return p.storeKeys(a.X)
		}
		st := derefType(a.X.Type())
		if al, ok := a.X.(*ssa.Alloc); ok {
			_ = al
		}
		if _, local, _ := p.structSortName(st); local {
			return []string{p.fieldKey(st, a.Field)}
		}
		// field of an extern struct: treat pointee as a cell of the extern sort
		return p.storeKeys(a.X)
	case *ssa.IndexAddr:
		switch xt := a.X.Type().Underlying().(type) {
		case *types.Slice:
			return []string{p.elemKey(xt.Elem())}
		case *types.Pointer:
			if at, ok := xt.Elem().Underlying().(*types.Array); ok {
				return []string{p.elemKey(at.Elem())}
			}
		}
		return []string{"*"}
	case *ssa.Alloc:
		if p.promotable(a) {
			return nil
		}
		et := a.Type().Underlying().(*types.Pointer).Elem()
		if st, ok := et.Underlying().(*types.Struct); ok {
			if _, local, _ := p.structSortName(et); local {
				var ks []string
				for i := 0; i < st.NumFields(); i++ {
					ks = append(ks, p.fieldKey(et, i))
				}
				return ks
			}
		}
		if at, ok := et.Underlying().(*types.Array); ok {
			return []string{p.elemKey(at.Elem())}
		}
		return []string{p.cvKey(a)}
	case *ssa.Global:
		if a.Pkg != p.SSAPkg {
			return nil
		}
		return []string{"G|" + a.Name()}
	case *ssa.FreeVar:
		b := p.resolveFreeVarDeep(a)
		if b != nil {
			if _, isParam := b.(*ssa.Parameter); !isParam {
				return p.storeKeys(b)
			}
		}
	}
	if elemT == nil {
		return []string{"*"}
	}
	if st, ok := elemT.Underlying().(*types.Struct); ok {
		if _, local, _ := p.structSortName(elemT); local {
			var ks []string
			for i := 0; i < st.NumFields(); i++ {
				ks = append(ks, p.fieldKey(elemT, i))
			}
			return ks
		}
	}
	return []string{p.wildKey(elemT)}
}

func unwrapSynthetic(fn *ssa.Function) *ssa.Function { return unwrapSyntheticD(fn, 0) }

func unwrapSyntheticD(fn *ssa.Function, depth int) *ssa.Function {
	if fn == nil || fn.Synthetic == "" || depth > 4 {
		return fn
	}
	if strings.HasPrefix(fn.Synthetic, "package initializer") || strings.HasPrefix(fn.Synthetic, "instance of") {
		return fn
	}
	for _, b := range fn.Blocks {
		for _, in := range b.Instrs {
			if c, ok := in.(ssa.CallInstruction); ok {
				if sc := c.Common().StaticCallee(); sc != nil {
					return unwrapSyntheticD(sc, depth+1)
				}
			}
		}
	}
	return fn
}

func (p *Prog) ComputeModSets() {
	infos := map[*ssa.Function]*modInfo{}
	addrTaken := map[*ssa.Function]bool{}
	boxed := map[*ssa.Function]bool{}
	boxedTypes := map[string]types.Type{}
	all := []*ssa.Function{}
	for fn := range ssautil.AllFunctions(p.SSAProg) {
		if fn.Blocks == nil {
			continue
		}
		if p.isLocalFn(fn) {
			all = append(all, fn)
		}
	}
	for _, fn := range all {
		mi := &modInfo{direct: KeySet{}, callees: map[*ssa.Function]bool{}}
		infos[fn] = mi
		for _, b := range fn.Blocks {
			for _, in := range b.Instrs {
				// address-taken functions
				for _, op := range in.Operands(nil) {
					if op == nil || *op == nil {
						continue
					}
					if f, ok := (*op).(*ssa.Function); ok {
						if c, isCall := in.(ssa.CallInstruction); isCall && c.Common().Value == f {
							continue
						}
						addrTaken[unwrapSynthetic(f)] = true
					}
				}
				switch x := in.(type) {
				case *ssa.Store:
					// writes into objects this function allocated itself do not change any object that existed
					// before the call: they are not part of the function's write set as seen by its callers
					if p.rootedAtLocalAlloc(x.Addr, fn) {
						continue
					}
					for _, k := range p.storeKeys(x.Addr) {
						mi.direct.Add(k)
					}
				case *ssa.MapUpdate:
					mt := x.Map.Type().Underlying().(*types.Map)
					mi.direct.Add(p.mapKey(mt))
				case *ssa.MakeClosure:
					addrTaken[unwrapSynthetic(x.Fn.(*ssa.Function))] = true
				case *ssa.MakeInterface:
					if it, ok := x.Type().Underlying().(*types.Interface); ok && it.NumMethods() == 0 {
						// only boxes that are stored (map update / store / passed to AsValue-like package functions) can reach a context
						if refs := x.Referrers(); refs != nil {
							for _, r := range *refs {
								switch rr := r.(type) {
								case *ssa.MapUpdate, *ssa.Store, *ssa.Return, *ssa.Phi:
									boxedTypes[types.TypeString(x.X.Type(), nil)] = x.X.Type()
								case ssa.CallInstruction:
									if sc := rr.Common().StaticCallee(); sc != nil && p.isLocalFn(sc) {
										boxedTypes[types.TypeString(x.X.Type(), nil)] = x.X.Type()
									}
								}
							}
						}
					}
					switch fv := x.X.(type) {
					case *ssa.MakeClosure:
						boxed[unwrapSynthetic(fv.Fn.(*ssa.Function))] = true
					case *ssa.Function:
						boxed[unwrapSynthetic(fv)] = true
					}
				case ssa.CallInstruction:
					p.modCall(mi, x.Common())
				}
			}
		}
	}
	// candidate targets
	var taken []*ssa.Function
	for f := range addrTaken {
		if f != nil && infos[f] != nil {
			taken = append(taken, f)
		}
	}
	// methods reachable through reflection (MethodByName) are the exported methods of the
	// types whose values the package itself puts into interface{} containers
	var exportedMethods []*ssa.Function
	p.boxedTypes = boxedTypes
	for _, T := range boxedTypes {
		ms := p.SSAProg.MethodSets.MethodSet(T)
		for i := 0; i < ms.Len(); i++ {
			if !ms.At(i).Obj().Exported() {
				continue
			}
			if mf := p.SSAProg.MethodValue(ms.At(i)); mf != nil {
				mf = unwrapSynthetic(mf)
				if p.isLocalFn(mf) && mf.Blocks != nil {
					exportedMethods = append(exportedMethods, mf)
				}
			}
		}
	}
	methodImpls := func(ic ifaceCall) []*ssa.Function {
		var out []*ssa.Function
		for _, T := range p.implementers(ic.iface) {
			ms := p.SSAProg.MethodSets.MethodSet(T)
			sel := ms.Lookup(p.Types, ic.method)
			if sel == nil {
				// exported method
				for i := 0; i < ms.Len(); i++ {
					if ms.At(i).Obj().Name() == ic.method {
						sel = ms.At(i)
					}
				}
			}
			if sel != nil {
				if f := p.SSAProg.MethodValue(sel); f != nil {
					out = append(out, unwrapSynthetic(f))
				}
			}
		}
		return out
	}
	// resolve edges: calls through function values use the VTA call graph (sound modulo reflection,
	// which is handled separately below); signature matching is the fallback for sites VTA does not know.
	vtaCallees := p.vtaDynamicCallees(all)
	p.vtaCallees = vtaCallees
	for _, fn := range all {
		mi := infos[fn]
		if tgts, ok := vtaCallees[fn]; ok {
			for t := range tgts {
				t = unwrapSynthetic(t)
				if infos[t] != nil {
					mi.callees[t] = true
				}
			}
		} else {
			for _, sig := range mi.dynSigs {
				for _, t := range taken {
					if sigMatches(t.Signature, sig) {
						mi.callees[t] = true
					}
				}
			}
		}
		for _, ic := range mi.ifaceCalls {
			for _, f := range methodImpls(ic) {
				mi.callees[f] = true
			}
		}
		if mi.reflective {
			for t := range boxed {
				if infos[t] != nil {
					mi.callees[t] = true
				}
			}
			for _, m := range exportedMethods {
				mi.callees[m] = true
			}
		}
	}
	// fixpoint
	p.ModSets = map[*ssa.Function]KeySet{}
	for _, fn := range all {
		ks := KeySet{}
		ks.AddAll(infos[fn].direct)
		p.ModSets[fn] = ks
	}
	changed := true
	for changed {
		changed = false
		for _, fn := range all {
			for c := range infos[fn].callees {
				if cs, ok := p.ModSets[c]; ok {
					if p.ModSets[fn].AddAll(cs) {
						changed = true
					}
				}
			}
		}
	}
	p.modInfos = infos
	p.addrTaken = map[*ssa.Function]bool{}
	for _, t := range taken {
		p.addrTaken[t] = true
	}
	p.exportedMethods = exportedMethods
	p.boxedFns = boxed
}

// isLocalFn: function belongs to the package under verification (including its closures and wrappers).
func (p *Prog) isLocalFn(f *ssa.Function) bool { return p.isLocalFnD(f, 0) }

func (p *Prog) isLocalFnD(f *ssa.Function, depth int) bool {
	if f == nil || depth > 4 {
		return false
	}
	if f.Pkg == p.SSAPkg {
		return true
	}
	if f.Pkg != nil {
		return false
	}
	if f.Parent() != nil {
		return p.isLocalFnD(f.Parent(), depth+1)
	}
	if f.Object() != nil && f.Object().Pkg() == p.Types {
		return true
	}
	if f.Synthetic != "" {
		u := unwrapSynthetic(f)
		if u != f {
			return p.isLocalFnD(u, depth+1)
		}
	}
	return false
}

// vtaDynamicCallees: for every local function, the local functions its function-value call sites may reach.
func (p *Prog) vtaDynamicCallees(all []*ssa.Function) map[*ssa.Function]map[*ssa.Function]bool {
	out := map[*ssa.Function]map[*ssa.Function]bool{}
	funcs := ssautil.AllFunctions(p.SSAProg)
	cg := vta.CallGraph(funcs, cha.CallGraph(p.SSAProg))
	for _, fn := range all {
		n := cg.Nodes[fn]
		set := map[*ssa.Function]bool{}
		out[fn] = set
		if n == nil {
			continue
		}
		for _, e := range n.Out {
			if e.Site == nil {
				continue
			}
			c := e.Site.Common()
			if c.IsInvoke() || c.StaticCallee() != nil {
				continue
			}
			if e.Callee != nil && e.Callee.Func != nil && p.isLocalFn(e.Callee.Func) {
				set[e.Callee.Func] = true
			}
		}
	}
	return out
}

func sigMatches(a, b *types.Signature) bool {
	if a.Params().Len() != b.Params().Len() || a.Results().Len() != b.Results().Len() || a.Variadic() != b.Variadic() {
		return false
	}
	for i := 0; i < a.Params().Len(); i++ {
		if !types.Identical(a.Params().At(i).Type(), b.Params().At(i).Type()) {
			return false
		}
	}
	for i := 0; i < a.Results().Len(); i++ {
		if !types.Identical(a.Results().At(i).Type(), b.Results().At(i).Type()) {
			return false
		}
	}
	return true
}

func (p *Prog) ghostKeysOf(name string) []string {
	fc := p.Contracts.Funcs[name]
	if fc == nil {
		return nil
	}
	var out []string
	for _, g := range fc.GhostUpd {
		out = append(out, "gh|"+g.Name)
	}
	return out
}

func (p *Prog) modCall(mi *modInfo, c *ssa.CallCommon) {
	if c.IsInvoke() {
		for _, k := range p.ghostKeysOf(p.relTypeString(c.Value.Type()) + "." + c.Method.Name()) {
			mi.direct.Add(k)
		}
		iface, _ := c.Value.Type().Underlying().(*types.Interface)
		if iface != nil {
			mi.ifaceCalls = append(mi.ifaceCalls, ifaceCall{iface, c.Method.Name()})
		}
		// extern implementations (user writers, loaders) are assumed not to write package memory
		return
	}
	switch v := c.Value.(type) {
	case *ssa.Builtin:
		switch v.Name() {
		case "append":
			if st, ok := c.Args[0].Type().Underlying().(*types.Slice); ok {
				// appending to a slice this function created itself writes no pre-existing array
				if !p.freshSliceValue(c.Args[0], map[ssa.Value]bool{}) {
					mi.direct.Add(p.elemKey(st.Elem()))
				}
			}
		case "copy":
			if st, ok := c.Args[0].Type().Underlying().(*types.Slice); ok {
				mi.direct.Add(p.elemKey(st.Elem()))
			}
		case "delete":
			if mt, ok := c.Args[0].Type().Underlying().(*types.Map); ok {
				mi.direct.Add(p.mapKey(mt))
			}
		case "clear":
			mi.direct.Add("*")
		}
		return
	case *ssa.Function:
		f := unwrapSynthetic(v)
		if f.Blocks != nil && p.isLocalFn(f) {
			mi.callees[f] = true
			for _, k := range p.ghostKeysOf(p.FuncName(f)) {
				mi.direct.Add(k)
			}
			return
		}
		for _, k := range p.ghostKeysOf(externName(f)) {
			mi.direct.Add(k)
		}
		p.modExtern(mi, f, c)
		return
	case *ssa.MakeClosure:
		mi.callees[unwrapSynthetic(v.Fn.(*ssa.Function))] = true
		return
	}
	// dynamic call through a function value
	if sig, ok := c.Value.Type().Underlying().(*types.Signature); ok {
		mi.dynSigs = append(mi.dynSigs, sig)
	}
}

// modExtern: effects of a call to a function outside the package.
func (p *Prog) modExtern(mi *modInfo, f *ssa.Function, c *ssa.CallCommon) {
	name := externName(f)
	switch name {
	case "(reflect.Value).Call", "(reflect.Value).CallSlice", "(reflect.Value).MethodByName", "(reflect.Value).Method":
		if strings.Contains(name, "Call") {
			mi.reflective = true
		}
	case "sort.Slice", "sort.SliceStable":
		// sorts the slice in place through reflection
		if mk, ok := c.Args[0].(*ssa.MakeInterface); ok {
			if st, ok := mk.X.Type().Underlying().(*types.Slice); ok {
				mi.direct.Add(p.elemKey(st.Elem()))
			}
		} else {
			mi.direct.Add("*")
		}
	case "fmt.Sprintf", "fmt.Sprint", "fmt.Errorf", "fmt.Sprintln", "fmt.Fprintf":
		// may call String()/Error()/Format methods of in-package types
		mi.ifaceCalls = append(mi.ifaceCalls, ifaceCall{stringerIface(), "String"}, ifaceCall{errorIface(), "Error"})
	}
	for _, a := range c.Args {
		at := a.Type()
		// callbacks through interface-typed or func-typed arguments
		if mk, ok := a.(*ssa.MakeInterface); ok {
			at = mk.X.Type()
			// all methods of the dynamic type may be called back
			ms := p.SSAProg.MethodSets.MethodSet(at)
			for i := 0; i < ms.Len(); i++ {
				if mf := p.SSAProg.MethodValue(ms.At(i)); mf != nil {
					mf = unwrapSynthetic(mf)
					if mf.Pkg == p.SSAPkg {
						mi.callees[mf] = true
					}
				}
			}
			continue
		}
		switch u := at.Underlying().(type) {
		case *types.Interface:
			for i := 0; i < u.NumMethods(); i++ {
				mi.ifaceCalls = append(mi.ifaceCalls, ifaceCall{u, u.Method(i).Name()})
			}
		case *types.Signature:
			if fv, ok := a.(*ssa.Function); ok {
				mi.callees[unwrapSynthetic(fv)] = true
			} else if mc, ok := a.(*ssa.MakeClosure); ok {
				mi.callees[unwrapSynthetic(mc.Fn.(*ssa.Function))] = true
			} else {
				mi.dynSigs = append(mi.dynSigs, u)
			}
		case *types.Pointer:
			// extern function may write through a pointer argument
			if _, local, _ := p.structSortName(u.Elem()); local {
				if _, isStruct := u.Elem().Underlying().(*types.Struct); isStruct {
					// in-package struct handed to extern code: assume read-only (fmt, reflect)
					continue
				}
			}
			for _, k := range p.storeKeys(a) {
				mi.direct.Add(k)
			}
		}
	}
}

func externName(f *ssa.Function) string {
	if f.Signature.Recv() != nil {
		rt := f.Signature.Recv().Type()
		return "(" + types.TypeString(rt, func(p *types.Package) string { return p.Name() }) + ")." + f.Name()
	}
	if f.Pkg != nil {
		return f.Pkg.Pkg.Name() + "." + f.Name()
	}
	if f.Object() != nil && f.Object().Pkg() != nil {
		return f.Object().Pkg().Name() + "." + f.Name()
	}
	return f.Name()
}

var (
	cachedStringer *types.Interface
	cachedError    *types.Interface
)

func stringerIface() *types.Interface {
	if cachedStringer == nil {
		sig := types.NewSignatureType(nil, nil, nil, nil, types.NewTuple(types.NewVar(0, nil, "", types.Typ[types.String])), false)
		cachedStringer = types.NewInterfaceType([]*types.Func{types.NewFunc(0, nil, "String", sig)}, nil).Complete()
	}
	return cachedStringer
}

func errorIface() *types.Interface {
	if cachedError == nil {
		cachedError = types.Universe.Lookup("error").Type().Underlying().(*types.Interface)
	}
	return cachedError
}

// resolveFreeVarDeep follows free variables through nested closures to the captured Alloc.
func (p *Prog) resolveFreeVarDeep(fv *ssa.FreeVar) ssa.Value {
	for i := 0; i < 8; i++ {
		b := p.resolveFreeVar(fv)
		if b == nil {
			return nil
		}
		if f2, ok := b.(*ssa.FreeVar); ok {
			fv = f2
			continue
		}
		return b
	}
	return nil
}

// cvKeyName: a deterministic name for any Alloc (used for ordering only).
func (p *Prog) cvKeyName(a *ssa.Alloc) string {
	return a.Comment + "@" + a.Name()
}

// ComputeInitOnly finds struct fields that are only ever written on objects allocated by the
// writing function itself (constructor-only fields). Such a field of an object that existed before
// a call or a loop cannot be changed by that call or loop.
func (p *Prog) ComputeInitOnly() {
	written := map[string]bool{}
	escaped := map[string]bool{} // written through something that is not a local allocation
	for _, fn := range p.FuncList {
		for _, b := range fn.Blocks {
			for _, in := range b.Instrs {
				st, ok := in.(*ssa.Store)
				if !ok {
					continue
				}
				fa, ok := st.Addr.(*ssa.FieldAddr)
				if !ok {
					// whole-struct stores through pointers: all fields of that struct are affected
					if pt, ok := st.Addr.Type().Underlying().(*types.Pointer); ok {
						if sst, ok := pt.Elem().Underlying().(*types.Struct); ok {
							if _, local, _ := p.structSortName(pt.Elem()); local {
								if _, isAlloc := st.Addr.(*ssa.Alloc); !isAlloc {
									for i := 0; i < sst.NumFields(); i++ {
										escaped[p.fieldKey(pt.Elem(), i)] = true
									}
								}
							}
						}
					}
					continue
				}
				stT := derefType(fa.X.Type())
				if _, local, _ := p.structSortName(stT); !local {
					continue
				}
				key := p.fieldKey(stT, fa.Field)
				written[key] = true
				if al, ok := fa.X.(*ssa.Alloc); ok && al.Parent() == fn {
					continue
				}
				escaped[key] = true
			}
		}
	}
	p.InitOnly = map[string]bool{}
	for _, k := range p.allFieldKeys() {
		if !escaped[k] {
			p.InitOnly[k] = true
		}
	}
	// freshonly T: every field of T gets an empty writers list (unless one is declared explicitly)
	if p.Contracts != nil {
		for _, tn := range p.Contracts.FreshOnlyTypes {
			obj := p.Types.Scope().Lookup(tn)
			if obj == nil {
				fmt.Fprintf(os.Stderr, "contracts: freshonly: unknown type %s\n", tn)
				continue
			}
			st, ok := obj.Type().Underlying().(*types.Struct)
			if !ok {
				continue
			}
			for i := 0; i < st.NumFields(); i++ {
				k := p.fieldKey(obj.Type(), i)
				if _, has := p.Contracts.Writers[k]; !has {
					p.Contracts.Writers[k] = nil
					p.Contracts.WritersProps[k] = p.Contracts.FreshOnlyProps[tn]
				}
			}
		}
	}
	// a field key declared `writers <key>` with no listed function is written on fresh objects only
	// (an obligation at every store), so it gets the same frame axiom
	if p.Contracts != nil {
		for k, fns := range p.Contracts.Writers {
			if len(fns) == 0 && strings.HasPrefix(k, "F|") {
				p.InitOnly[k] = true
			}
		}
	}
	// map types whose maps are only ever filled by the function that created them (or that created the
	// object holding them): an existing map of such a type is not changed by a call or a loop
	mapSeen := map[string]bool{}
	mapEsc := map[string]bool{}
	localMap := func(v ssa.Value, fn *ssa.Function) bool {
		switch x := v.(type) {
		case *ssa.MakeMap:
			return true
		case *ssa.UnOp:
			if fa, ok := x.X.(*ssa.FieldAddr); ok {
				if al, ok := fa.X.(*ssa.Alloc); ok && al.Parent() == fn {
					return true
				}
			}
		}
		return false
	}
	for _, fn := range p.FuncList {
		for _, b := range fn.Blocks {
			for _, in := range b.Instrs {
				switch x := in.(type) {
				case *ssa.MapUpdate:
					k := p.mapKey(x.Map.Type().Underlying().(*types.Map))
					mapSeen[k] = true
					if !localMap(x.Map, fn) {
						mapEsc[k] = true
					}
				case ssa.CallInstruction:
					if bi, ok := x.Common().Value.(*ssa.Builtin); ok && (bi.Name() == "delete" || bi.Name() == "clear") {
						if mt, ok := x.Common().Args[0].Type().Underlying().(*types.Map); ok {
							mapEsc[p.mapKey(mt)] = true
						}
					}
				}
			}
		}
	}
	for k := range mapSeen {
		if !mapEsc[k] {
			p.InitOnly[mapHasKey(k)] = true
			p.InitOnly[mapValKey(k)] = true
		}
	}
}

// ComputeAppendOnly: element types whose slice elements are never overwritten in place
// (no s[i] = x, no copy into, no re-slicing, not handed to library code). In-bounds elements of a
// slice of such a type held in an unescaped object cannot be changed by a callee
// (assumption: no append to a stale header that shares its backing array with a longer one).
// ComputeExternResults records the first result type of every external callee (for pure contracts).
func (p *Prog) ComputeExternResults() {
	p.externResult = map[string]types.Type{}
	for _, fn := range p.FuncList {
		for _, b := range fn.Blocks {
			for _, in := range b.Instrs {
				ci, ok := in.(ssa.CallInstruction)
				if !ok {
					continue
				}
				c := ci.Common()
				sig := c.Signature()
				if sig.Results().Len() == 0 {
					continue
				}
				var name string
				if c.IsInvoke() {
					name = p.relTypeString(c.Value.Type()) + "." + c.Method.Name()
				} else if sc := c.StaticCallee(); sc != nil && !p.isLocalFn(sc) {
					name = externName(sc)
				} else {
					continue
				}
				p.externResult[name] = sig.Results().At(0).Type()
			}
		}
	}
}

func (p *Prog) ComputeAppendOnly() {
	bad := map[string]bool{}
	seen := map[string]bool{}
	mark := func(t types.Type) {
		if st, ok := t.Underlying().(*types.Slice); ok {
			bad[p.elemKey(st.Elem())] = true
		}
	}
	for _, fn := range p.FuncList {
		for _, b := range fn.Blocks {
			for _, in := range b.Instrs {
				switch x := in.(type) {
				case *ssa.Store:
					if ia, ok := x.Addr.(*ssa.IndexAddr); ok {
						if st, ok := ia.X.Type().Underlying().(*types.Slice); ok {
							bad[p.elemKey(st.Elem())] = true
						}
					}
				case *ssa.Slice:
					if _, ok := x.X.Type().Underlying().(*types.Slice); ok {
						mark(x.X.Type())
					}
				case *ssa.MakeInterface:
					mark(x.X.Type())
				case ssa.CallInstruction:
					c := x.Common()
					if bi, ok := c.Value.(*ssa.Builtin); ok {
						if bi.Name() == "copy" {
							mark(c.Args[0].Type())
						}
						if bi.Name() == "append" {
							if st, ok := c.Args[0].Type().Underlying().(*types.Slice); ok {
								seen[p.elemKey(st.Elem())] = true
							}
						}
						continue
					}
					if sc := c.StaticCallee(); sc != nil && !p.isLocalFn(sc) {
						for _, a := range c.Args {
							mark(a.Type())
						}
					}
				}
			}
		}
	}
	p.AppendOnly = map[string]bool{}
	for k := range seen {
		if !bad[k] {
			p.AppendOnly[k] = true
		}
	}
}

// rootedAtLocalAlloc: the address is (a field/element of) an object allocated by fn itself.
func (p *Prog) rootedAtLocalAlloc(addr ssa.Value, fn *ssa.Function) bool {
	for i := 0; i < 8; i++ {
		switch a := addr.(type) {
		case *ssa.FieldAddr:
			addr = a.X
		case *ssa.IndexAddr:
			if _, isSlice := a.X.Type().Underlying().(*types.Slice); isSlice {
				// a slice taken from a local array (varargs, composite literal)?
				if sl, ok := a.X.(*ssa.Slice); ok {
					addr = sl.X
					continue
				}
				return false
			}
			addr = a.X
		case *ssa.Alloc:
			return a.Parent() == fn
		default:
			return false
		}
	}
	return false
}

// freshSliceValue: the slice value can only denote nil or a backing array created by the enclosing function.
func (p *Prog) freshSliceValue(v ssa.Value, seen map[ssa.Value]bool) bool {
	if seen[v] {
		return true
	}
	seen[v] = true
	switch x := v.(type) {
	case *ssa.Const:
		return x.Value == nil
	case *ssa.MakeSlice:
		return true
	case *ssa.Slice:
		if al, ok := x.X.(*ssa.Alloc); ok {
			_, isArr := derefType(al.Type()).Underlying().(*types.Array)
			return isArr
		}
		return p.freshSliceValue(x.X, seen)
	case *ssa.Phi:
		for _, e := range x.Edges {
			if !p.freshSliceValue(e, seen) {
				return false
			}
		}
		return true
	case *ssa.Call:
		if b, ok := x.Call.Value.(*ssa.Builtin); ok && b.Name() == "append" {
			return p.freshSliceValue(x.Call.Args[0], seen)
		}
		return false
	case *ssa.Convert:
		// []rune(s), []byte(s)
		_, fromStr := x.X.Type().Underlying().(*types.Basic)
		return fromStr
	case *ssa.UnOp:
		// load of a promotable local holding only fresh slices: not tracked
		return false
	}
	return false
}
