package main

import (
	"bytes"
	"context"
	"crypto/sha1"
	"encoding/hex"
	"fmt"
	"os"
	"os/exec"
	"path/filepath"
	"strings"
	"sync"
	"time"
)

type SolverCfg struct {
	Name string
	Cmd  func(file string, timeoutMs int) []string
	Head func(timeoutMs int) string
}

var solvers = []SolverCfg{
	{
		Name: "z3-5.1.0",
		Cmd:  func(f string, ms int) []string { return []string{"z3-new", "-smt2", f} },
		Head: func(ms int) string { return fmt.Sprintf("(set-option :timeout %d)\n", ms) },
	},
	{
		Name: "cvc5-1.0.3",
		Cmd: func(f string, ms int) []string {
			return []string{"cvc5", "--incremental", fmt.Sprintf("--tlimit-per=%d", ms), f}
		},
		Head: func(ms int) string { return "" },
	},
	{
		Name: "z3-4.8.12",
		Cmd:  func(f string, ms int) []string { return []string{"z3", "-smt2", f} },
		Head: func(ms int) string { return fmt.Sprintf("(set-option :timeout %d)\n", ms) },
	},
}

type SolveOpts struct {
	WorkDir     string
	PrimaryMs   int
	SecondaryMs int
	AllSolvers  bool // thorough: ask every solver about every obligation
	KeepFiles   bool
	Only        map[string]bool // if set: decide only these obligations (and inferred invariants)
	NoSecond    map[string]bool // obligations listed as undecided / known finding: no second-chance race when the primary solver does not prove them
}

type SolveStats struct {
	mu        sync.Mutex
	BySolver  map[string]int
	SolverSec map[string]float64
	Disagree  []string
}

func (s *SolveStats) add(solver string, sec float64) {
	s.mu.Lock()
	defer s.mu.Unlock()
	if s.BySolver == nil {
		s.BySolver = map[string]int{}
		s.SolverSec = map[string]float64{}
	}
	s.SolverSec[solver] += sec
}

func (s *SolveStats) win(solver string) {
	s.mu.Lock()
	defer s.mu.Unlock()
	if s.BySolver == nil {
		s.BySolver = map[string]int{}
		s.SolverSec = map[string]float64{}
	}
	s.BySolver[solver]++
}

// solver answers are memoised on disk by (solver, timeout, script text): the same query is never sent twice.
var solveCacheDir = ""

func cacheKey(sc SolverCfg, script string, ms int) string {
	h := sha1.New()
	h.Write([]byte(sc.Name))
	h.Write([]byte(fmt.Sprintf("|%d|", ms)))
	h.Write([]byte(script))
	return hex.EncodeToString(h.Sum(nil))
}

func runSolver(sc SolverCfg, script string, ms int, dir, tag string, wall time.Duration) (string, float64, error) {
	var ck string
	if solveCacheDir != "" {
		ck = filepath.Join(solveCacheDir, cacheKey(sc, script, ms))
		if b, err := os.ReadFile(ck); err == nil {
			// the last line records how long the solver took when the answer was computed
			txt := string(b)
			sec := 0.0
			if i := strings.LastIndex(txt, "\n;sec="); i >= 0 {
				fmt.Sscanf(txt[i+6:], "%f", &sec)
				txt = txt[:i]
			}
			return txt, sec, nil
		}
	}
	out, sec, err := runSolverRaw(sc, script, ms, dir, tag, wall)
	if ck != "" && err == nil {
		tmp := ck + fmt.Sprintf(".tmp%d", os.Getpid())
		if os.WriteFile(tmp, []byte(out+fmt.Sprintf("\n;sec=%.3f", sec)), 0o644) == nil {
			os.Rename(tmp, ck)
		}
	}
	return out, sec, err
}

func runSolverRaw(sc SolverCfg, script string, ms int, dir, tag string, wall time.Duration) (string, float64, error) {
	f := filepath.Join(dir, tag+"."+sc.Name+".smt2")
	if err := os.WriteFile(f, []byte(sc.Head(ms)+script), 0o644); err != nil {
		return "", 0, err
	}
	ctx, cancel := context.WithTimeout(context.Background(), wall)
	defer cancel()
	args := sc.Cmd(f, ms)
	cmd := exec.CommandContext(ctx, args[0], args[1:]...)
	var out bytes.Buffer
	cmd.Stdout = &out
	cmd.Stderr = &out
	t0 := time.Now()
	err := cmd.Run()
	sec := time.Since(t0).Seconds()
	_ = err
	return out.String(), sec, nil
}

// parseAnswers extracts the sequence of check-sat answers.
// scriptError: the first error line that is not a timeout/interrupt or the harmless "model is not available".
func scriptError(out string) string {
	for _, l := range strings.Split(out, "\n") {
		l = strings.TrimSpace(l)
		if !strings.HasPrefix(l, "(error") {
			continue
		}
		if strings.Contains(l, "model is not available") || strings.Contains(l, "interrupted") || strings.Contains(l, "canceled") || strings.Contains(l, "timeout") {
			continue
		}
		return l
	}
	return ""
}

func parseAnswers(out string) []string {
	var res []string
	for _, l := range strings.Split(out, "\n") {
		l = strings.TrimSpace(l)
		switch {
		case l == "sat" || l == "unsat" || l == "unknown":
			res = append(res, l)
		case strings.HasPrefix(l, "(error") && strings.Contains(l, "interrupted"):
			res = append(res, "timeout")
		case strings.HasPrefix(l, "(error"):
			res = append(res, "error: "+l)
		case l == "timeout" || strings.HasPrefix(l, "cvc5 interrupted"):
			res = append(res, "timeout")
		}
	}
	return res
}

// SolveFunction discharges all obligations of an encoded function.
func SolveFunction(e *Enc, opts SolveOpts, stats *SolveStats) {
	if len(e.obs) == 0 {
		return
	}
	// derived obligations have no query of their own: they are computed from their members afterwards
	all0 := e.obs
	var real, derived []*Obligation
	for _, ob := range e.obs {
		if ob.Derived {
			derived = append(derived, ob)
		} else {
			real = append(real, ob)
		}
	}
	e.obs = real
	defer func() {
		e.obs = all0
		for _, d := range derived {
			d.Result = "unknown"
			d.Solver = "derived"
			for _, alt := range d.AnyOf {
				ok := len(alt) > 0
				for _, m := range alt {
					if m.Result != "unsat" {
						ok = false
					}
				}
				if ok {
					d.Result = "unsat"
					d.Model = "measure: " + alt[0].Detail
					break
				}
			}
		}
	}()
	if len(e.obs) == 0 {
		return
	}
	// candidate termination measures are cheap yes/no questions: decide them first with a short timeout
	{
		var vc, rest []*Obligation
		for _, ob := range e.obs {
			if ob.Kind == "variant-cand" {
				vc = append(vc, ob)
			} else {
				rest = append(rest, ob)
			}
		}
		if len(vc) > 0 {
			vopts := opts
			vopts.PrimaryMs = 600
			solveSubset(e, vc, vopts)
			e.obs = rest
			if len(rest) == 0 {
				return
			}
			if opts.Only == nil {
				script := subsetScript2(e, all0, rest)
				solveScript(e, script, opts, stats)
				return
			}
		}
	}
	if opts.Only != nil {
		// keep only the wanted obligations; the others are not decided in this run
		var sel []*Obligation
		for _, ob := range e.obs {
			if opts.Only[ob.Name] || ob.Kind == "cand" || ob.Kind == "variant-cand" {
				sel = append(sel, ob)
			} else {
				ob.Result = "skipped"
			}
		}
		if len(sel) == 0 {
			return
		}
		script := subsetScript2(e, all0, sel)
		all := e.obs
		e.obs = sel
		solveScript(e, script, opts, stats)
		e.obs = all
		return
	}
	solveScript(e, e.sb.String(), opts, stats)
}

func solveScript(e *Enc, script string, opts SolveOpts, stats *SolveStats) {
	tag := sanitize(e.name)
	if len(tag) > 80 {
		tag = tag[:80]
	}
	n := len(e.obs)
	wall := time.Duration(opts.PrimaryMs*n+5000) * time.Millisecond
	out, sec, _ := runSolver(solvers[0], script, opts.PrimaryMs, opts.WorkDir, tag, wall)
	stats.add(solvers[0].Name, sec)
	ans := parseAnswers(out)
	// Answers are mapped to obligations by position. An error reported for any other command of the script (a
	// malformed assertion, an undeclared symbol) would shift that mapping and drop a hypothesis silently:
	// fail closed, nothing of this script counts as decided.
	if msg := scriptError(out); msg != "" {
		for _, ob := range e.obs {
			ob.Result = "error"
			ob.Model = msg
			ob.Solver = solvers[0].Name
		}
		e.note("solver reported an error in the script of %s: %s", e.name, msg)
		ans = nil
	}
	for i, ob := range e.obs {
		if ob.Result == "error" && ans == nil {
			continue
		}
		r := "unknown"
		if i < len(ans) {
			r = ans[i]
		}
		if strings.HasPrefix(r, "error") {
			ob.Model = r
			r = "error"
			// later answers are unreliable after an error
			for j := i + 1; j < len(e.obs); j++ {
				if j < len(ans) && !strings.HasPrefix(ans[j], "error") {
					continue
				}
			}
		}
		ob.Result = r
		ob.Solver = solvers[0].Name
		if n > 0 {
			ob.Millis = int64(sec * 1000 / float64(n))
		}
		if r == "unsat" && ob.Kind != "cover" {
			stats.win(solvers[0].Name)
		}
	}
	// second chance for undecided obligations, thorough cross-check for all
	var wg sync.WaitGroup
	sem := make(chan struct{}, 4)
	for i, ob := range e.obs {
		need := false
		if ob.Kind == "variant-cand" {
			continue // a failing candidate measure is simply not used
		}
		if opts.NoSecond[ob.Name] && !opts.AllSolvers {
			continue
		}
		if ob.Kind == "cover" {
			need = ob.Result == "unsat" || ob.Result == "error"
		} else {
			need = ob.Result != "unsat" || opts.AllSolvers
		}
		if !need {
			continue
		}
		wg.Add(1)
		go func(i int, ob *Obligation) {
			defer wg.Done()
			sem <- struct{}{}
			defer func() { <-sem }()
			secondChance(e, ob, i, opts, stats)
		}(i, ob)
	}
	wg.Wait()
	if !opts.KeepFiles {
		matches, _ := filepath.Glob(filepath.Join(opts.WorkDir, tag+".*"))
		for _, m := range matches {
			os.Remove(m)
		}
	}
}

// standalone script for one obligation
func (ob *Obligation) Standalone() string {
	script := ob.enc.sb.String()
	pre := script[:ob.PrefixLen]
	// drop the push/pop blocks of earlier obligations (they contain only check-sat), keep their assumed facts
	var sb strings.Builder
	lines := strings.Split(pre, "\n")
	skip := 0
	for _, l := range lines {
		if l == "(push 1)" {
			skip++
			continue
		}
		if l == "(pop 1)" {
			skip--
			continue
		}
		if skip > 0 {
			continue
		}
		sb.WriteString(l)
		sb.WriteString("\n")
	}
	sb.WriteString(ob.Goal + "\n(check-sat)\n")
	return sb.String()
}

func secondChance(e *Enc, ob *Obligation, idx int, opts SolveOpts, stats *SolveStats) {
	script := ob.Standalone()
	tag := fmt.Sprintf("%s.ob%d", sanitize(e.name), idx)
	if len(tag) > 100 {
		tag = tag[len(tag)-100:]
	}
	type res struct {
		solver string
		ans    string
		out    string
		sec    float64
	}
	ch := make(chan res, len(solvers))
	var list []SolverCfg
	list = append(list, solvers...)
	for _, sc := range list {
		go func(sc SolverCfg) {
			s := script
			if ob.Kind != "cover" {
				s += "(get-model)\n"
			}
			out, sec, _ := runSolver(sc, s, opts.SecondaryMs, opts.WorkDir, tag, time.Duration(opts.SecondaryMs+3000)*time.Millisecond)
			stats.add(sc.Name, sec)
			a := parseAnswers(out)
			r := "timeout"
			if len(a) > 0 {
				r = a[0]
			}
			ch <- res{sc.Name, r, out, sec}
		}(sc)
	}
	var sawSat, sawUnsat *res
	var all []res
	for range list {
		r := <-ch
		all = append(all, r)
		rr := r
		if r.ans == "unsat" && sawUnsat == nil {
			sawUnsat = &rr
		}
		if r.ans == "sat" && sawSat == nil {
			sawSat = &rr
		}
	}
	if sawSat != nil && sawUnsat != nil {
		stats.mu.Lock()
		stats.Disagree = append(stats.Disagree, ob.Name)
		stats.mu.Unlock()
	}
	if ob.Kind == "cover" {
		switch {
		case sawSat != nil:
			ob.Result, ob.Solver = "sat", sawSat.solver
		case sawUnsat != nil:
			ob.Result, ob.Solver = "unsat", sawUnsat.solver
		default:
			ob.Result = "unknown"
		}
		return
	}
	switch {
	case sawUnsat != nil && sawSat == nil:
		if ob.Result != "unsat" {
			stats.win(sawUnsat.solver)
			ob.Solver = sawUnsat.solver
			ob.Millis = int64(sawUnsat.sec * 1000)
		}
		ob.Result = "unsat"
	case sawSat != nil:
		ob.Result = "sat"
		ob.Solver = sawSat.solver
		ob.Millis = int64(sawSat.sec * 1000)
		ob.Model = extractModel(sawSat.out)
	default:
		// keep unknown/timeout, remember what each said
		var parts []string
		for _, r := range all {
			parts = append(parts, r.solver+"="+firstWord(r.ans))
		}
		if ob.Result == "unsat" {
			return
		}
		ob.Result = "unknown"
		ob.Model = strings.Join(parts, " ")
	}
}

func firstWord(s string) string {
	if i := strings.IndexAny(s, " :"); i > 0 {
		return s[:i]
	}
	return s
}

// extractModel keeps the interesting part of a model: parameters, results, phis.
func extractModel(out string) string {
	i := strings.Index(out, "sat")
	if i < 0 {
		return ""
	}
	body := out[i+3:]
	var keep []string
	lines := strings.Split(body, "\n")
	for j := 0; j < len(lines); j++ {
		l := strings.TrimSpace(lines[j])
		if strings.HasPrefix(l, "(define-fun p_") || strings.HasPrefix(l, "(define-fun v_") || strings.HasPrefix(l, "(define-fun ret_") || strings.HasPrefix(l, "(define-fun res_") {
			s := l
			if !strings.HasSuffix(l, ")") || strings.Count(l, "(") != strings.Count(l, ")") {
				for j+1 < len(lines) && strings.Count(s, "(") != strings.Count(s, ")") {
					j++
					s += " " + strings.TrimSpace(lines[j])
				}
			}
			if len(s) < 300 {
				keep = append(keep, s)
			}
		}
	}
	if len(keep) > 60 {
		keep = keep[:60]
	}
	return strings.Join(keep, "\n")
}

func (ob *Obligation) Discharged() bool {
	if ob.Kind == "cover" {
		return ob.Result == "sat" || ob.Result == "unknown" || ob.Result == "timeout"
	}
	return ob.Result == "unsat"
}

// solveSubset decides a subset of obligations (used by Houdini): one incremental run of the
// primary solver over a script in which only the selected obligations are checked.
func solveSubset(e *Enc, sel []*Obligation, opts SolveOpts) {
	script := subsetScript(e, sel)
	tag := "h_" + sanitize(e.name)
	if len(tag) > 80 {
		tag = tag[:80]
	}
	out, _, _ := runSolver(solvers[0], script, opts.PrimaryMs, opts.WorkDir, tag, time.Duration(opts.PrimaryMs*len(sel)+5000)*time.Millisecond)
	ans := parseAnswers(out)
	if msg := scriptError(out); msg != "" {
		ans = nil // positions are unreliable after an error (see solveScript): nothing is decided
		e.note("solver reported an error in the script of %s: %s", e.name, msg)
	}
	for i, ob := range sel {
		ob.Result = "unknown"
		if i < len(ans) {
			ob.Result = ans[i]
		}
	}
	if !opts.KeepFiles {
		matches, _ := filepath.Glob(filepath.Join(opts.WorkDir, tag+".*"))
		for _, m := range matches {
			os.Remove(m)
		}
	}
}

// subsetScript rebuilds the script with the push/check/pop blocks of unselected obligations removed.
func subsetScript(e *Enc, sel []*Obligation) string { return subsetScript2(e, e.obs, sel) }

func subsetScript2(e *Enc, allObs []*Obligation, sel []*Obligation) string {
	want := map[*Obligation]bool{}
	for _, ob := range sel {
		want[ob] = true
	}
	script := e.sb.String()
	var sb strings.Builder
	pos := 0
	for _, ob := range allObs {
		if ob.Derived {
			continue
		}
		sb.WriteString(script[pos:ob.PrefixLen])
		pos = ob.PrefixLen
		if !want[ob] {
			// skip "(push 1)\n<goal>\n(check-sat)\n(pop 1)\n"
			block := "(push 1)\n" + ob.Goal + "\n(check-sat)\n(pop 1)\n"
			if ob.Kind == "cover" && ob.Goal == "(assert true)" {
				block = "(push 1)\n(check-sat)\n(pop 1)\n"
			}
			if strings.HasPrefix(script[pos:], block) {
				pos += len(block)
			}
		}
	}
	sb.WriteString(script[pos:])
	return sb.String()
}
