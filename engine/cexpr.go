package main

import (
	"fmt"
	"go/types"
	"strconv"
	"strings"

	"golang.org/x/tools/go/ssa"
)

// TV is a typed value in the contract language.
type TV struct {
	T   Term
	Typ types.Type // may be nil for pure SMT values
}

// Env is the evaluation environment of a contract expression.
type Env struct {
	e     *Enc
	vars  map[string]TV
	state *State
	old   *State
	now0  Term // "fresh" means born at or after this
	bound bool // evaluating under a binder (quantifier / spec body): no side facts may be asserted
	// caller-side evaluation of a callee's clauses: lastresult("X") there denotes the result of the
	// callee's own latest direct call to X, which the caller only knows as some value (fresh per call)
	opaqueLast map[string]Term
}

func (env *Env) with(name string, v TV) *Env {
	n := &Env{e: env.e, vars: map[string]TV{}, state: env.state, old: env.old, now0: env.now0, bound: env.bound, opaqueLast: env.opaqueLast}
	for k, x := range env.vars {
		n.vars[k] = x
	}
	n.vars[name] = v
	return n
}

func (env *Env) inState(st *State) *Env {
	return &Env{e: env.e, vars: env.vars, state: st, old: env.old, now0: env.now0, bound: env.bound, opaqueLast: env.opaqueLast}
}

var usePatternInference = false

type evalError struct{ msg string }

func (e *evalError) Error() string { return e.msg }

func evalFail(format string, args ...any) {
	panic(&evalError{fmt.Sprintf(format, args...)})
}

// Eval evaluates a contract expression; errors are returned (contract does not apply).
func (env *Env) Eval(x Expr) (tv TV, err error) {
	defer func() {
		if r := recover(); r != nil {
			if ee, ok := r.(*evalError); ok {
				err = ee
				return
			}
			panic(r)
		}
	}()
	return env.eval(x), nil
}

func (env *Env) evalBool(x Expr) Term {
	v := env.eval(x)
	if v.T.Sort != SBool {
		evalFail("boolean expected, got sort %s", v.T.Sort)
	}
	return v.T
}

func (env *Env) eval(x Expr) TV {
	e := env.e
	switch n := x.(type) {
	case *EInt:
		if strings.HasPrefix(n.V, "0x") {
			v, err := strconv.ParseInt(n.V[2:], 16, 64)
			if err != nil {
				evalFail("bad int %s", n.V)
			}
			return TV{T: IntLit(v), Typ: types.Typ[types.Int]}
		}
		return TV{T: BigLit(n.V), Typ: types.Typ[types.Int]}
	case *EBool:
		return TV{T: BoolLit(n.V), Typ: types.Typ[types.Bool]}
	case *EStr:
		return TV{T: e.strLit(n.V), Typ: types.Typ[types.String]}
	case *ENil:
		return TV{T: IntLit(0)}
	case *EIdent:
		if v, ok := env.vars[n.Name]; ok {
			return v
		}
		if gv, ok := e.p.Contracts.Ghosts[n.Name]; ok {
			_ = gv
			return TV{T: e.heapGet(env.state, "gh|"+n.Name)}
		}
		if n.Name == "seen" {
			// the delivered-keys set of the function's (single) map range loop
			var found []string
			for k := range e.heap0 {
				if strings.HasPrefix(k, "gh|$seen|") {
					found = append(found, k)
				}
			}
			if len(found) == 1 {
				return TV{T: e.heapGet(env.state, found[0])}
			}
			evalFail("seen: function has %d map range loops", len(found))
		}
		if n.Name == "now" {
			// the allocation clock: every existing object was born before it
			return TV{T: env.state.now, Typ: types.Typ[types.Int]}
		}
		if n.Name == "MaxInt" {
			return TV{T: BigLit(maxInt64Str)}
		}
		if n.Name == "MinInt" {
			return TV{T: BigLit(minInt64Str)}
		}
		// package-level constant or variable
		if obj := e.p.Types.Scope().Lookup(n.Name); obj != nil {
			switch o := obj.(type) {
			case *types.Const:
				return TV{T: e.constValTerm(o), Typ: o.Type()}
			case *types.Var:
				key := "G|" + n.Name
				return TV{T: e.heapGet(env.state, key), Typ: o.Type()}
			}
		}
		evalFail("unknown identifier %q", n.Name)
	case *EUn:
		v := env.eval(n.X)
		switch n.Op {
		case "!":
			return TV{T: Not(v.T), Typ: types.Typ[types.Bool]}
		case "-":
			return TV{T: Neg(v.T), Typ: v.Typ}
		}
	case *EBin:
		return env.evalBin(n)
	case *EField:
		return env.evalField(n)
	case *EIndex:
		return env.evalIndex(n)
	case *ECall:
		return env.evalCall(n)
	case *EQuant:
		inner := env
		if !inner.bound {
			inner = &Env{e: env.e, vars: env.vars, state: env.state, old: env.old, now0: env.now0, bound: true}
		}
		var binds []string
		var guards []Term
		for _, qv := range n.Vars {
			typ := strings.TrimSpace(qv.Type)
			var srt Sort
			var gt types.Type
			if typ == "" || typ == "int" {
				srt = SInt
				gt = nil
			} else {
				t, err := e.p.LookupType(typ)
				if err != nil {
					evalFail("quantifier type %q: %v", typ, err)
				}
				gt = t
				srt = e.sortOf(t)
			}
			e.n++
			name := fmt.Sprintf("q_%s_%d", sanitize(qv.Name), e.n)
			binds = append(binds, fmt.Sprintf("(%s %s)", name, srt))
			bound := TV{T: mk(srt, name), Typ: gt}
			if srt == SInt && len(n.Vars) == 1 {
				// an integer variable used as index into a slice: quantify over the absolute position in the
				// backing array (k = q - off), so that s[k] becomes (select (select E arr) q), a term the
				// solver can match on without inverting arithmetic
				if off, ok := inner.indexedSliceOffset(n.Body, qv.Name); ok {
					bound = TV{T: Sub(mk(SInt, name), off), Typ: types.Typ[types.Int]}
				}
			}
			inner = inner.with(qv.Name, bound)
		}
		body := inner.evalBool(n.Body)
		_ = guards
		q := "forall"
		if !n.Forall {
			q = "exists"
		}
		bs := body.S
		if n.Forall && usePatternInference {
			var vnames []string
			for _, b := range binds {
				vnames = append(vnames, strings.Fields(strings.Trim(b, "()"))[0])
			}
			if pats := inferPatterns(bs, vnames); len(pats) > 0 {
				var ps []string
				for _, p := range pats {
					ps = append(ps, ":pattern ("+p+")")
				}
				bs = "(! " + bs + " " + strings.Join(ps, " ") + ")"
			}
		}
		return TV{T: mk(SBool, fmt.Sprintf("(%s (%s) %s)", q, strings.Join(binds, " "), bs))}
	}
	evalFail("cannot evaluate %T", x)
	return TV{}
}

func (e *Enc) constValTerm(o *types.Const) Term {
	switch o.Val().Kind().String() {
	case "Int":
		return BigLit(o.Val().ExactString())
	case "Bool":
		return BoolLit(o.Val().String() == "true")
	case "String":
		s, _ := strconv.Unquote(o.Val().ExactString())
		return e.strLit(s)
	}
	evalFail("unsupported constant %s", o.Name())
	return Term{}
}

func (env *Env) evalBin(n *EBin) TV {
	switch n.Op {
	case "&&":
		return TV{T: And(env.evalBool(n.L), env.evalBool(n.R)), Typ: types.Typ[types.Bool]}
	case "||":
		return TV{T: Or(env.evalBool(n.L), env.evalBool(n.R)), Typ: types.Typ[types.Bool]}
	case "==>":
		return TV{T: Implies(env.evalBool(n.L), env.evalBool(n.R)), Typ: types.Typ[types.Bool]}
	case "<==>":
		return TV{T: Eq(env.evalBool(n.L), env.evalBool(n.R)), Typ: types.Typ[types.Bool]}
	}
	l := env.eval(n.L)
	r := env.eval(n.R)
	if l.T.Sort != r.T.Sort {
		evalFail("operand sorts differ in %s: %s vs %s", n.Op, l.T.Sort, r.T.Sort)
	}
	isF := l.T.Sort == SF64
	switch n.Op {
	case "==", "!=", "<", "<=", ">", ">=":
		r2 := env.evalCmp(n.Op, l, r, isF)
		r2.Typ = types.Typ[types.Bool]
		return r2
	}
	switch n.Op {
	case "==":
		if l.T.Sort == SStr {
			return TV{T: env.e.strEq(l.T, r.T)}
		}
		// on floats == in a contract is identity of the value (NaN == NaN); feq(a,b) is the IEEE comparison
		return TV{T: Eq(l.T, r.T)}
	case "!=":
		if l.T.Sort == SStr {
			return TV{T: Not(env.e.strEq(l.T, r.T))}
		}
		return TV{T: Ne(l.T, r.T)}
	case "<":
		if isF {
			return TV{T: App(SBool, "fp.lt", l.T, r.T)}
		}
		return TV{T: Lt(l.T, r.T)}
	case "<=":
		if isF {
			return TV{T: App(SBool, "fp.leq", l.T, r.T)}
		}
		return TV{T: Le(l.T, r.T)}
	case ">":
		if isF {
			return TV{T: App(SBool, "fp.gt", l.T, r.T)}
		}
		return TV{T: Gt(l.T, r.T)}
	case ">=":
		if isF {
			return TV{T: App(SBool, "fp.geq", l.T, r.T)}
		}
		return TV{T: Ge(l.T, r.T)}
	case "+":
		if l.T.Sort == SStr {
			c := App(SStr, "str_concat", l.T, r.T)
			return TV{T: c, Typ: l.Typ}
		}
		if isF {
			return TV{T: App(SF64, "fp.add RNE", l.T, r.T), Typ: l.Typ}
		}
		return TV{T: Add(l.T, r.T), Typ: l.Typ}
	case "-":
		if isF {
			return TV{T: App(SF64, "fp.sub RNE", l.T, r.T), Typ: l.Typ}
		}
		return TV{T: Sub(l.T, r.T), Typ: l.Typ}
	case "*":
		if isF {
			return TV{T: App(SF64, "fp.mul RNE", l.T, r.T), Typ: l.Typ}
		}
		return TV{T: Mul(l.T, r.T), Typ: l.Typ}
	case "/":
		if isF {
			return TV{T: App(SF64, "fp.div RNE", l.T, r.T), Typ: l.Typ}
		}
		return TV{T: App(SInt, "gdiv", l.T, r.T), Typ: l.Typ}
	case "%":
		return TV{T: App(SInt, "grem", l.T, r.T), Typ: l.Typ}
	}
	evalFail("unknown operator %s", n.Op)
	return TV{}
}

func (env *Env) evalCmp(op string, l, r TV, isF bool) TV {
	switch op {
	case "==":
		if l.T.Sort == SStr {
			return TV{T: env.e.strEq(l.T, r.T)}
		}
		// on floats == in a contract is identity of the value (NaN == NaN); feq(a,b) is the IEEE comparison
		return TV{T: Eq(l.T, r.T)}
	case "!=":
		if l.T.Sort == SStr {
			return TV{T: Not(env.e.strEq(l.T, r.T))}
		}
		return TV{T: Ne(l.T, r.T)}
	case "<":
		if isF {
			return TV{T: App(SBool, "fp.lt", l.T, r.T)}
		}
		return TV{T: Lt(l.T, r.T)}
	case "<=":
		if isF {
			return TV{T: App(SBool, "fp.leq", l.T, r.T)}
		}
		return TV{T: Le(l.T, r.T)}
	case ">":
		if isF {
			return TV{T: App(SBool, "fp.gt", l.T, r.T)}
		}
		return TV{T: Gt(l.T, r.T)}
	}
	if isF {
		return TV{T: App(SBool, "fp.geq", l.T, r.T)}
	}
	return TV{T: Ge(l.T, r.T)}
}

func (env *Env) evalField(n *EField) TV {
	e := env.e
	x := env.eval(n.X)
	if x.Typ == nil {
		evalFail("field %s of untyped value", n.Name)
	}
	t := x.Typ
	isPtr := false
	if p, ok := t.Underlying().(*types.Pointer); ok {
		t = p.Elem()
		isPtr = true
	}
	st, ok := t.Underlying().(*types.Struct)
	if !ok {
		evalFail("field %s of non-struct type %s", n.Name, x.Typ)
	}
	for i := 0; i < st.NumFields(); i++ {
		if st.Field(i).Name() == n.Name {
			ft := st.Field(i).Type()
			if isPtr {
				if _, local, _ := e.p.structSortName(t); !local {
					evalFail("field of extern struct %s", t)
				}
				fv := Select(e.heapGet(env.state, e.p.fieldKey(t, i)), x.T)
				if !env.bound {
					// a field of integer type holds a value of that type in every heap version
					if _, _, isInt := intRange(ft); isInt {
						e.assume(e.typeInv(fv, ft, env.state.now))
					}
				}
				return TV{T: fv, Typ: ft}
			}
			return TV{T: e.structSel(x.T, t, i), Typ: ft}
		}
	}
	evalFail("no field %s in %s", n.Name, t)
	return TV{}
}

// indexedSliceOffset looks for a sub-expression s[name] where s is a slice that does not depend on
// name, and returns the offset term of the first such slice.
func (env *Env) indexedSliceOffset(x Expr, name string) (off Term, found bool) {
	var walk func(x Expr, st *Env)
	walk = func(x Expr, st *Env) {
		if found || x == nil {
			return
		}
		switch n := x.(type) {
		case *EIndex:
			if id, ok := n.I.(*EIdent); ok && id.Name == name {
				func() {
					defer func() { recover() }()
					if _, shadow := st.vars[name]; shadow {
						return
					}
					v := st.eval(n.X)
					if v.T.Sort == SSlice {
						off, found = SliceOff(v.T), true
					}
				}()
			}
			walk(n.X, st)
			walk(n.I, st)
		case *EBin:
			walk(n.L, st)
			walk(n.R, st)
		case *EUn:
			walk(n.X, st)
		case *EField:
			walk(n.X, st)
		case *ECall:
			if n.Fn == "old" && st.old != nil {
				for _, a := range n.Args {
					walk(a, st.inState(st.old))
				}
				return
			}
			for _, a := range n.Args {
				walk(a, st)
			}
		case *EQuant:
			// nested binders: leave alone
		}
	}
	walk(x, env)
	return
}

func (env *Env) evalIndex(n *EIndex) TV {
	e := env.e
	x := env.eval(n.X)
	i := env.eval(n.I)
	// raw SMT array
	if strings.HasPrefix(string(x.T.Sort), "(Array ") {
		return TV{T: Select(x.T, i.T)}
	}
	if x.Typ == nil {
		evalFail("index of untyped value")
	}
	switch u := x.Typ.Underlying().(type) {
	case *types.Slice:
		arr := e.heapGet(env.state, e.p.elemKey(u.Elem()))
		off := SliceOff(x.T)
		if pre := "(- "; strings.HasPrefix(i.T.S, pre) && strings.HasSuffix(i.T.S, " "+off.S+")") {
			// off + (q - off) == q
			q := i.T.S[len(pre) : len(i.T.S)-len(off.S)-2]
			if !strings.ContainsAny(q, " ()") {
				return TV{T: Select(Select(arr, SliceArr(x.T)), mk(SInt, q)), Typ: u.Elem()}
			}
		}
		return TV{T: Select(Select(arr, SliceArr(x.T)), Add(off, i.T)), Typ: u.Elem()}
	case *types.Map:
		mk := e.p.mapKey(u)
		return TV{T: Select(Select(e.heapGet(env.state, mapValKey(mk)), x.T), i.T), Typ: u.Elem()}
	case *types.Basic:
		if u.Info()&types.IsString != 0 {
			return TV{T: StrAt(x.T, i.T), Typ: types.Typ[types.Uint8]}
		}
	}
	evalFail("cannot index %s", x.Typ)
	return TV{}
}

func (env *Env) evalCall(n *ECall) TV {
	e := env.e
	arg := func(i int) TV {
		if i >= len(n.Args) {
			evalFail("%s: missing argument %d", n.Fn, i)
		}
		return env.eval(n.Args[i])
	}
	switch n.Fn {
	case "old":
		if env.old == nil {
			evalFail("old() not available here")
		}
		return env.inState(env.old).eval(n.Args[0])
	case "len":
		x := arg(0)
		if x.T.Sort == SStr {
			return TV{T: StrLen(x.T), Typ: types.Typ[types.Int]}
		}
		if x.T.Sort == SSlice {
			return TV{T: SliceLen(x.T), Typ: types.Typ[types.Int]}
		}
		if x.Typ != nil {
			if mt, ok := x.Typ.Underlying().(*types.Map); ok {
				return TV{T: e.mapLen(env.state, mt, x.T), Typ: types.Typ[types.Int]}
			}
		}
		evalFail("len of %s", x.T.Sort)
	case "cap":
		x := arg(0)
		return TV{T: SliceCap(x.T), Typ: types.Typ[types.Int]}
	case "fresh":
		x := arg(0)
		t := x.T
		if t.Sort == SSlice {
			t = SliceArr(t)
		}
		return TV{T: Ge(Birth(t), env.now0)}
	case "freshOrNil":
		x := arg(0)
		t := x.T
		if t.Sort == SSlice {
			t = SliceArr(t)
		}
		return TV{T: Or(Eq(t, IntLit(0)), Ge(Birth(t), env.now0))}
	case "perexec":
		x := arg(0)
		t := x.T
		if t.Sort == SSlice {
			t = SliceArr(t)
		}
		// a location is per-execution if it carries the ghost label or was allocated since the frame started
		return TV{T: Or(App(SBool, "perexec", t), Ge(Birth(t), env.e.now0))}
	case "has":
		m := arg(0)
		k := arg(1)
		mt, ok := m.Typ.Underlying().(*types.Map)
		if !ok {
			evalFail("has: not a map")
		}
		mk := e.p.mapKey(mt)
		return TV{T: And(Ne(m.T, IntLit(0)), Select(Select(e.heapGet(env.state, mapHasKey(mk)), m.T), k.T))}
	case "mapdom":
		m := arg(0)
		mt, ok := m.Typ.Underlying().(*types.Map)
		if !ok {
			evalFail("mapdom: not a map")
		}
		return TV{T: Select(e.heapGet(env.state, mapHasKey(e.p.mapKey(mt))), m.T)}
	case "mapvals":
		m := arg(0)
		mt, ok := m.Typ.Underlying().(*types.Map)
		if !ok {
			evalFail("mapvals: not a map")
		}
		return TV{T: Select(e.heapGet(env.state, mapValKey(e.p.mapKey(mt))), m.T)}
	case "store":
		a, i, v := arg(0), arg(1), arg(2)
		return TV{T: Store(a.T, i.T, v.T)}
	case "ite":
		c, a, b := arg(0), arg(1), arg(2)
		return TV{T: Ite(c.T, a.T, b.T), Typ: a.Typ}
	case "min":
		a, b := arg(0), arg(1)
		return TV{T: Ite(Lt(a.T, b.T), a.T, b.T), Typ: a.Typ}
	case "max":
		a, b := arg(0), arg(1)
		return TV{T: Ite(Gt(a.T, b.T), a.T, b.T), Typ: a.Typ}
	case "abs":
		a := arg(0)
		return TV{T: Ite(Lt(a.T, IntLit(0)), Neg(a.T), a.T), Typ: a.Typ}
	case "typeis":
		x := arg(0)
		s, ok := n.Args[1].(*EStr)
		if !ok {
			evalFail("typeis: second argument must be a type string")
		}
		t, err := e.p.LookupType(s.V)
		if err != nil {
			evalFail("typeis: %v", err)
		}
		_, _, _, id := e.boxFns(t)
		return TV{T: Eq(DynType(x.T), IntLit(int64(id)))}
	case "implements":
		// implements(x, "pkg.Iface"): the interface value x is non-nil and its dynamic type implements the interface
		x := arg(0)
		s, ok := n.Args[1].(*EStr)
		if !ok {
			evalFail("implements: second argument must be a type string")
		}
		it, err := e.p.LookupType(s.V)
		if err != nil {
			evalFail("implements: %v", err)
		}
		if !types.IsInterface(it) {
			evalFail("implements: %s is not an interface type", s.V)
		}
		return TV{T: And(Ne(x.T, IntLit(0)), e.implements(DynType(x.T), it)), Typ: types.Typ[types.Bool]}
	case "unbox":
		x := arg(0)
		s, ok := n.Args[1].(*EStr)
		if !ok {
			evalFail("unbox: second argument must be a type string")
		}
		t, err := e.p.LookupType(s.V)
		if err != nil {
			evalFail("unbox: %v", err)
		}
		_, unbox, srt, _ := e.boxFns(t)
		return TV{T: App(srt, unbox, x.T), Typ: t}
	case "box":
		x := arg(0)
		if x.Typ == nil {
			evalFail("box of untyped value")
		}
		if env.bound {
			// boxing asserts facts about the boxed term; under a binder the term mentions a bound variable
			evalFail("box(...) is not supported under a quantifier or in a spec body")
		}
		return TV{T: e.boxValue(x.T, x.Typ)}
	case "strat":
		return TV{T: StrAt(arg(0).T, arg(1).T), Typ: types.Typ[types.Uint8]}
	case "runein":
		// runein(s, r): strings.ContainsRune(s, r)
		e.declareFun("rune_in", []Sort{SStr, SInt}, SBool)
		return TV{T: App(SBool, "rune_in", arg(0).T, arg(1).T), Typ: types.Typ[types.Bool]}
	case "substr":
		return TV{T: App(SStr, "str_sub", arg(0).T, arg(1).T, arg(2).T), Typ: types.Typ[types.String]}
	case "runesub":
		// runesub(s, i, j): string([]rune(s)[i:j])
		e.declareFun("runes_of", []Sort{SStr}, ArraySort(SInt, SInt))
		e.declareFun("str_from_runes", []Sort{ArraySort(SInt, SInt), SInt, SInt}, SStr)
		return TV{T: App(SStr, "str_from_runes", App(ArraySort(SInt, SInt), "runes_of", arg(0).T), arg(1).T, Sub(arg(2).T, arg(1).T)), Typ: types.Typ[types.String]}
	case "runestr":
		// runestr(s, i): string([]rune(s)[i]), the i-th character of s as a string
		e.declareFun("runes_of", []Sort{SStr}, ArraySort(SInt, SInt))
		return TV{T: App(SStr, "str_from_rune", Select(App(ArraySort(SInt, SInt), "runes_of", arg(0).T), arg(1).T)), Typ: types.Typ[types.String]}
	case "prefixat":
		// prefixat(s, i, "lit"): the bytes of lit stand at s[i:], i.e. strings.HasPrefix(s[i:], lit)
		sx, ok := n.Args[2].(*EStr)
		if !ok {
			evalFail("prefixat: literal expected")
		}
		sv, iv := arg(0).T, arg(1).T
		conds := []Term{Ge(iv, IntLit(0)), Le(Add(iv, IntLit(int64(len(sx.V)))), StrLen(sv))}
		for k := 0; k < len(sx.V); k++ {
			conds = append(conds, Eq(StrAt(sv, Add(iv, IntLit(int64(k)))), IntLit(int64(sx.V[k]))))
		}
		return TV{T: And(conds...), Typ: types.Typ[types.Bool]}
	case "flit":
		// flit("1.5"), flit("-1.0"): a float64 literal
		sx, ok := n.Args[0].(*EStr)
		if !ok {
			evalFail("flit: literal expected")
		}
		lit := sx.V
		if strings.HasPrefix(lit, "-") {
			lit = "(- " + lit[1:] + ")"
		}
		return TV{T: mk(SF64, "((_ to_fp 11 53) RNE "+lit+")"), Typ: types.Typ[types.Float64]}
	case "fzero":
		return TV{T: App(SBool, "fp.isZero", arg(0).T), Typ: types.Typ[types.Bool]}
	case "calls":
		// calls("callee"): number of calls to callee made so far by this activation
		sx, ok := n.Args[0].(*EStr)
		if !ok {
			evalFail("calls: callee name expected")
		}
		if env.opaqueLast != nil {
			evalFail("calls: not meaningful in a callee's clause seen from a caller")
		}
		if t, ok := env.state.heap["cnt|"+sx.V]; ok {
			return TV{T: t, Typ: types.Typ[types.Int]}
		}
		if t, ok := e.heap0["cnt|"+sx.V]; ok {
			return TV{T: t, Typ: types.Typ[types.Int]}
		}
		return TV{T: IntLit(0), Typ: types.Typ[types.Int]}
	case "atiter":
		// atiter(k, expr): expr in the state at the head of the current iteration of loop k (for clauses
		// inside that loop's body: invariants of inner loops, call-site clauses)
		lit, ok := n.Args[0].(*EInt)
		if !ok {
			evalFail("atiter: loop index expected")
		}
		if env.opaqueLast != nil {
			evalFail("atiter: not meaningful in a callee's clause seen from a caller")
		}
		for _, li := range e.loopList {
			if itoa(li.index) == lit.V {
				if li.headerState == nil {
					evalFail("atiter: loop %s has not been entered at this point", lit.V)
				}
				return env.inState(li.headerState).eval(n.Args[1])
			}
		}
		evalFail("atiter: no loop %s", lit.V)
	case "lastassert":
		// lastassert("*T"): the pointer obtained by the latest type assertion to *T on this path (arbitrary if none)
		sx, ok := n.Args[0].(*EStr)
		if !ok {
			evalFail("lastassert: type string expected")
		}
		if env.opaqueLast != nil {
			evalFail("lastassert: not meaningful in a callee's clause seen from a caller")
		}
		t, err := e.p.LookupType(sx.V)
		if err != nil {
			evalFail("lastassert: %v", err)
		}
		if len(n.Args) == 2 {
			// lastassert("*T", "field"): what that field held when the assertion was made
			fx, ok := n.Args[1].(*EStr)
			if !ok {
				evalFail("lastassert: field name expected")
			}
			var ft types.Type
			if pt, ok := t.Underlying().(*types.Pointer); ok {
				if st, ok := pt.Elem().Underlying().(*types.Struct); ok {
					for i := 0; i < st.NumFields(); i++ {
						if st.Field(i).Name() == fx.V {
							ft = st.Field(i).Type()
						}
					}
				}
			}
			if ft == nil {
				evalFail("lastassert: %s has no field %s", sx.V, fx.V)
			}
			return TV{T: e.heapGet(env.state, "lasttaf|"+e.p.relTypeString(t)+"|"+fx.V), Typ: ft}
		}
		return TV{T: e.heapGet(env.state, "lastta|"+e.p.relTypeString(t)), Typ: t}
	case "entered":
		// entered(k): the head of loop k has been reached by this activation on this path
		lit, ok := n.Args[0].(*EInt)
		if !ok {
			evalFail("entered: loop index expected")
		}
		k := "ent|" + lit.V
		if t, ok := env.state.heap[k]; ok {
			return TV{T: t, Typ: types.Typ[types.Bool]}
		}
		return TV{T: False, Typ: types.Typ[types.Bool]}
	case "lastarg":
		// lastarg("callee", i): argument i (receiver = 0 for methods) of the latest call to callee on this path
		sx, ok := n.Args[0].(*EStr)
		ix, ok2 := n.Args[1].(*EInt)
		if !ok || !ok2 {
			evalFail("lastarg: callee name and argument index expected")
		}
		pre := "larg|" + sx.V + "|" + ix.V + "|"
		for k, t := range env.state.heap {
			if strings.HasPrefix(k, pre) {
				return TV{T: t, Typ: e.lastArgTyp[sx.V+"|"+ix.V]}
			}
		}
		for k, t := range e.heap0 {
			if strings.HasPrefix(k, pre) {
				return TV{T: t, Typ: e.lastArgTyp[sx.V+"|"+ix.V]}
			}
		}
		// no call yet on this path: arbitrary (sort from the callee's signature)
		for _, b := range e.fn.Blocks {
			for _, in := range b.Instrs {
				ci, ok := in.(ssa.CallInstruction)
				if !ok {
					continue
				}
				nm, kind, _ := e.calleeName(ci.Common())
				if kind == "builtin" || nm != sx.V {
					continue
				}
				var args []ssa.Value
				if ci.Common().IsInvoke() {
					args = append(args, ci.Common().Value)
				}
				args = append(args, ci.Common().Args...)
				idx, _ := strconv.Atoi(ix.V)
				if idx < len(args) {
					srt := e.sortOf(args[idx].Type())
					t := e.fresh("larg0", srt)
					e.heap0[pre+string(srt)] = t
					if e.lastArgTyp == nil {
						e.lastArgTyp = map[string]types.Type{}
					}
					e.lastArgTyp[sx.V+"|"+ix.V] = args[idx].Type()
					return TV{T: t, Typ: args[idx].Type()}
				}
			}
		}
		evalFail("lastarg: no call to %s in this function", sx.V)
	case "lastresult":
		// lastresult("callee"): first result of the latest call to callee on this path
		sx, ok := n.Args[0].(*EStr)
		if !ok {
			evalFail("lastresult: callee name expected")
		}
		if len(n.Args) == 2 {
			// lastresult("callee", i): the i-th result (i >= 1) of the latest call
			ix, ok := n.Args[1].(*EInt)
			if !ok || ix.V == "0" {
				evalFail("lastresult: result index >= 1 expected")
			}
			if env.opaqueLast != nil {
				ok2 := sx.V + "#" + ix.V
				if t, ok := env.opaqueLast[ok2]; ok {
					return TV{T: t}
				}
				idx, _ := strconv.Atoi(ix.V)
				t := e.fresh("calleelast", e.resultSortOfCallee(sx.V, idx))
				env.opaqueLast[ok2] = t
				return TV{T: t}
			}
			pre := "lastn|" + sx.V + "|" + ix.V + "|"
			for k, t := range env.state.heap {
				if strings.HasPrefix(k, pre) {
					return TV{T: t, Typ: e.lastTyp[sx.V+"|"+ix.V]}
				}
			}
			for k, t := range e.heap0 {
				if strings.HasPrefix(k, pre) {
					return TV{T: t, Typ: e.lastTyp[sx.V+"|"+ix.V]}
				}
			}
			evalFail("lastresult: no call to %s with a result %s before this point", sx.V, ix.V)
		}
		if env.opaqueLast != nil {
			if t, ok := env.opaqueLast[sx.V]; ok {
				return TV{T: t}
			}
			t := e.fresh("calleelast", e.resultSortOfCallee(sx.V, 0))
			env.opaqueLast[sx.V] = t
			return TV{T: t}
		}
		for k, t := range env.state.heap {
			if strings.HasPrefix(k, "last|"+sx.V+"|") {
				return TV{T: t, Typ: e.lastTyp[sx.V]}
			}
		}
		for k, t := range e.heap0 {
			if strings.HasPrefix(k, "last|"+sx.V+"|") {
				return TV{T: t, Typ: e.lastTyp[sx.V]}
			}
		}
		// no call yet on this path: the value is arbitrary (the callee is called somewhere in this function)
		if srt, ok := e.lastSortFor(sx.V); ok {
			k := "last|" + sx.V + "|" + string(srt)
			t := e.fresh("last0", srt)
			e.heap0[k] = t
			return TV{T: t}
		}
		evalFail("lastresult: no call to %s before this point", sx.V)
	case "wrap64":
		return TV{T: App(SInt, "wrapmod64", arg(0).T), Typ: types.Typ[types.Int]}
	case "runecount":
		c := App(SInt, "rune_count", arg(0).T)
		return TV{T: c, Typ: types.Typ[types.Int]}
	case "strOfBytes":
		e.declareFun("str_of_arr", []Sort{SInt}, SStr)
		return TV{T: App(SStr, "str_of_arr", SliceArr(arg(0).T)), Typ: types.Typ[types.String]}
	case "arr":
		return TV{T: SliceArr(arg(0).T)}
	case "off":
		return TV{T: SliceOff(arg(0).T)}
	case "birth":
		return TV{T: Birth(arg(0).T)}
	case "boundrecv":
		// boundrecv(f, "(*T).m"): the receiver captured by the bound method value f (meaningful when fnis(f, "(*T).m"))
		x := arg(0)
		s, ok := n.Args[1].(*EStr)
		if !ok {
			evalFail("boundrecv: method name expected")
		}
		fn := e.p.Funcs[s.V]
		if fn == nil || fn.Signature.Recv() == nil {
			evalFail("boundrecv: unknown method %s", s.V)
		}
		srt := e.sortOf(fn.Params[0].Type())
		capFn := boundCapFn(e.p, fn, 0)
		e.declareFun(capFn, []Sort{SInt}, srt)
		return TV{T: App(srt, capFn, x.T), Typ: fn.Params[0].Type()}
	case "fnis":
		// fnis(f, "name"): function value f is the named package function
		x := arg(0)
		s, ok := n.Args[1].(*EStr)
		if !ok {
			evalFail("fnis: name expected")
		}
		fn := e.p.Funcs[s.V]
		if fn == nil {
			evalFail("fnis: unknown function %s", s.V)
		}
		e.declareFun("fn_id", []Sort{SInt}, SInt)
		return TV{T: Eq(App(SInt, "fn_id", x.T), IntLit(int64(e.p.FuncID(fn))))}
	case "feq":
		return TV{T: App(SBool, "fp.eq", arg(0).T, arg(1).T), Typ: types.Typ[types.Bool]}
	case "toint":
		return TV{T: App(SInt, "f2i", arg(0).T), Typ: types.Typ[types.Int]}
	case "tofloat":
		return TV{T: App(SF64, "i2f", arg(0).T), Typ: types.Typ[types.Float64]}
	case "isNaN":
		return TV{T: App(SBool, "fp.isNaN", arg(0).T)}
	}
	// name of a pure function (declared with `pure as NAME`)
	if pf, ok := e.p.Contracts.PureNames[n.Fn]; ok {
		var args []Term
		for i := range n.Args {
			args = append(args, arg(i).T)
		}
		rt, rsrt := e.pureResult(pf)
		app := e.pureApp(pf, pf.Name, 0, args, rsrt)
		if !env.bound {
			e.assumePureFacts(pf, args, app, rt, env)
		}
		return TV{T: app, Typ: rt}
	}
	// spec function
	if sf, ok := e.p.Contracts.Specs[n.Fn]; ok {
		var args []Term
		for i := range n.Args {
			args = append(args, arg(i).T)
		}
		return e.applySpec(sf, args, env)
	}
	evalFail("unknown function %q in contract", n.Fn)
	return TV{}
}

func (e *Enc) mapLen(st *State, mt *types.Map, m Term) Term {
	mk := e.p.mapKey(mt)
	ks := e.sortOf(mt.Key())
	fn := "map_card_" + sanitize(string(ks))
	e.declareFun(fn, []Sort{ArraySort(ks, SBool)}, SInt)
	return App(SInt, fn, Select(e.heapGet(st, mapHasKey(mk)), m))
}

// applySpec declares (once) and applies a spec function.
func (e *Enc) applySpec(sf *SpecFn, args []Term, env *Env) TV {
	if len(args) != len(sf.Params) {
		evalFail("spec %s: expected %d arguments", sf.Name, len(sf.Params))
	}
	resT, rsrt := e.specType(sf.Result)
	name := "spec_" + sf.Name
	if !e.specDecl[name] {
		e.specDecl[name] = true
		var ps []Sort
		var bind []string
		inner := &Env{e: e, vars: map[string]TV{}, state: env.state, old: env.old, now0: env.now0, bound: true}
		for _, p := range sf.Params {
			pt, psrt := e.specType(p.Type)
			ps = append(ps, psrt)
			vn := "sp_" + sanitize(p.Name)
			bind = append(bind, fmt.Sprintf("(%s %s)", vn, psrt))
			inner.vars[p.Name] = TV{T: mk(psrt, vn), Typ: pt}
		}
		if sf.Body == nil {
			e.declareFun(name, ps, rsrt)
		} else {
			body := inner.eval(sf.Body)
			if body.T.Sort != rsrt {
				evalFail("spec %s: body sort %s, declared %s", sf.Name, body.T.Sort, rsrt)
			}
			e.needSort(rsrt)
			e.emit(fmt.Sprintf("(define-fun %s (%s) %s %s)", name, strings.Join(bind, " "), rsrt, body.T.S))
		}
	}
	for i, a := range args {
		_, psrt := e.specType(sf.Params[i].Type)
		if a.Sort != psrt {
			evalFail("spec %s: argument %d has sort %s, want %s", sf.Name, i, a.Sort, psrt)
		}
	}
	return TV{T: App(rsrt, name, args...), Typ: resT}
}

func (e *Enc) specType(s string) (types.Type, Sort) {
	s = strings.TrimSpace(s)
	switch s {
	case "Int", "int":
		return types.Typ[types.Int], SInt
	case "Bool", "bool":
		return types.Typ[types.Bool], SBool
	case "Str", "string":
		return types.Typ[types.String], SStr
	case "float64":
		return types.Typ[types.Float64], SF64
	case "Ref":
		return nil, SInt
	}
	if strings.HasPrefix(s, "map[") || strings.HasPrefix(s, "(Array") {
		if strings.HasPrefix(s, "(Array") {
			return nil, Sort(s)
		}
		return nil, e.ghostSort(s)
	}
	t, err := e.p.LookupType(s)
	if err != nil {
		evalFail("type %q: %v", s, err)
	}
	return t, e.sortOf(t)
}

// pureResult: type and sort of the first result of a pure function (looked up from its signature).
func (e *Enc) pureResult(fc *FuncContract) (types.Type, Sort) {
	if fn := e.p.Funcs[fc.Name]; fn != nil {
		rt := fn.Signature.Results().At(0).Type()
		return rt, e.sortOf(rt)
	}
	if t, ok := e.p.externResult[fc.Name]; ok {
		return t, e.sortOf(t)
	}
	evalFail("pure function %s: result type unknown (not called anywhere?)", fc.Name)
	return nil, ""
}

// assumePureFacts: the postconditions of a pure function hold for every application of it; when a contract
// mentions F(args) the instantiated postconditions are assumed (once per term).
func (e *Enc) assumePureFacts(pf *FuncContract, args []Term, app Term, rt types.Type, env *Env) {
	if len(pf.Ens) == 0 {
		return
	}
	key := "purefacts:" + app.S
	if e.decl[key] || e.pureDepth > 2 {
		return
	}
	e.decl[key] = true
	e.pureDepth++
	defer func() { e.pureDepth-- }()
	var pnames []string
	var ptypes []types.Type
	if fn := e.p.Funcs[pf.Name]; fn != nil {
		for _, p := range fn.Params {
			pnames = append(pnames, p.Name())
			ptypes = append(ptypes, p.Type())
		}
	} else {
		pnames = pf.Params
	}
	inner := &Env{e: e, vars: map[string]TV{}, state: env.state, old: env.state, now0: env.now0}
	for i, a := range args {
		if i < len(pnames) {
			var t types.Type
			if i < len(ptypes) {
				t = ptypes[i]
			}
			inner.vars[pnames[i]] = TV{T: a, Typ: t}
		}
	}
	inner.vars["r0"] = TV{T: app, Typ: rt}
	if len(pf.Results) > 0 {
		inner.vars[pf.Results[0]] = TV{T: app, Typ: rt}
	}
	for _, cl := range pf.Ens {
		t, err := inner.Eval(cl.Expr)
		if err != nil {
			continue
		}
		e.assert(t.T)
	}
}

// resultSortOfCallee: the SMT sort of result idx of the function called under this name somewhere in the package
// (Int if the name is called nowhere). Used for the opaque stand-in of lastresult in a callee's clause when the
// clause is evaluated at a call site.
func (e *Enc) resultSortOfCallee(name string, idx int) Sort {
	e.p.mu.Lock()
	if e.p.calleeSorts == nil {
		e.p.calleeSorts = map[string][]Sort{}
	}
	if ss, ok := e.p.calleeSorts[name]; ok {
		e.p.mu.Unlock()
		if idx < len(ss) {
			return ss[idx]
		}
		return SInt
	}
	e.p.mu.Unlock()
	var found []Sort
	for _, fn := range e.p.FuncList {
		for _, b := range fn.Blocks {
			for _, in := range b.Instrs {
				ci, ok := in.(ssa.CallInstruction)
				if !ok || found != nil {
					continue
				}
				n, kind, _ := e.calleeName(ci.Common())
				if kind == "builtin" || n != name {
					continue
				}
				rs := ci.Common().Signature().Results()
				for i := 0; i < rs.Len(); i++ {
					found = append(found, e.sortOf(rs.At(i).Type()))
				}
				if rs.Len() == 0 {
					found = []Sort{}
				}
			}
		}
	}
	e.p.mu.Lock()
	e.p.calleeSorts[name] = found
	e.p.mu.Unlock()
	if idx < len(found) {
		return found[idx]
	}
	return SInt
}
