package main

import (
	"regexp"
	"bufio"
	"fmt"
	"os"
	"strconv"
	"strings"
	"unicode"
)

// ---------- expression AST ----------

type Expr interface{}

type (
	EIdent struct{ Name string }
	EInt   struct{ V string }
	EStr   struct{ V string }
	EBool  struct{ V bool }
	ENil   struct{}
	EBin   struct {
		Op   string
		L, R Expr
	}
	EUn struct {
		Op string
		X  Expr
	}
	ECall struct {
		Fn   string
		Args []Expr
	}
	EField struct {
		X    Expr
		Name string
	}
	EIndex struct {
		X, I Expr
	}
	EQuant struct {
		Forall bool
		Vars   []QVar
		Body   Expr
	}
)

type QVar struct{ Name, Type string }

// ---------- contracts ----------

type Clause struct {
	Kind  string // requires, ensures, invariant, decreases
	Props []string
	Expr  Expr
	Src   string
	Line  int
	Loop  int
	Label string
}

type FuncContract struct {
	Kind    string // func, extern, iface, functype
	Name    string
	Params  []string // declared names (extern/iface/functype); for func taken from SSA
	Results []string
	Req     []Clause
	Ens     []Clause
	Inv     map[int][]Clause
	Dec     map[int][]Clause
	IterEnd map[int][]Clause // iterend <loop>: holds at the end of every iteration (old() = start of that iteration)
	Assigns []string // heap key patterns; nil = inferred
	HasAssigns bool
	Pure    bool
	PureName string
	Line    int
	Flags   map[string]bool
	GhostUpd []GhostUpdate
	At       []AtClause
	OnlyFlows []OnlyFlow
	Propagates []Propagate
}

// ReentryDecl: Funcs[0] must not be called from code that Funcs[0] or one of the other listed functions can
// reach (the call would nest another activation with no measure bounding the depth).
type ReentryDecl struct {
	Funcs []string
	Props []string
}

// Propagate: a failure reported by a call to one of Callees (name or name#k; "*" = every call whose
// last result is an error) makes this function report a failure too: it returns a non-nil last result
// before it makes another iteration of an enclosing loop. Names prefixed with "!" are exempt.
type Propagate struct {
	Callees []string
	Except  []string
	Props   []string
	Label   string
	Line    int
	Unless  Expr // the failure may be dropped when this holds at the return
	UnlessSrc string
}

// OnlyFlow: parameter Param may only be used as an argument of calls to one of Callees.
type OnlyFlow struct {
	Param   string
	Callees []string
	Props   []string
}

type AtClause struct {
	Callee string
	Clause Clause
}

type GhostUpdate struct {
	Name string
	Expr Expr
	Src  string
}

type TypeInv struct {
	Type    string
	Clauses []Clause
}

type SpecFn struct {
	Name   string
	Params []QVar
	Result string
	Body   Expr
	Src    string
}

type GhostVar struct {
	Name string
	Type string
}

type Contracts struct {
	Path     string
	Funcs    map[string]*FuncContract // func + extern + iface + functype by name
	TypeInvs map[string]*TypeInv
	Specs    map[string]*SpecFn
	SpecOrder []string
	Axioms   []Clause
	Ghosts   map[string]*GhostVar
	GhostOrder []string
	LastArg  map[string]bool // callees some clause names in lastarg("callee", i)
	Reentry  []ReentryDecl // functions that must not be re-entered while they run (unbounded recursion through a loader)
	IgnorableErr map[string]bool // callees whose error result may be dropped (writes to the output and to in-memory buffers)
	NonNil   map[string][]string // heap key (E|..., MV|..., B|*T) -> props: pointers stored there are never nil
	Regions  map[string]string // type name -> region
	PureNames map[string]*FuncContract
	Guarded  map[string]string // field key "T.f" -> mutex field "T.m"
	Sinks          map[string][]string
	FreshOnlyTypes []string
	FreshOnlyProps map[string][]string
	Counted  map[string]bool   // callees named in a calls("...") expression somewhere in the contracts
	Monotone map[string]bool   // "T.f": boolean field that never goes from true to false
	Preserved map[string][]string // "T.f": field restored by every function before it returns
	Callers  map[string][]string // callee name -> functions allowed to call it
	CallersProps map[string][]string
	Writers  map[string][]string // heap key -> functions allowed to write it directly
	WritersProps map[string][]string
	Lines    int
}

var countedRe = regexp.MustCompile(`calls\("([^"]+)"\)`)
var lastArgRe = regexp.MustCompile(`lastarg\("([^"]+)"`)

func ParseContractsFile(path string) (*Contracts, error) {
	cs := &Contracts{Path: path, Funcs: map[string]*FuncContract{}, TypeInvs: map[string]*TypeInv{},
		Specs: map[string]*SpecFn{}, Ghosts: map[string]*GhostVar{}, Regions: map[string]string{}, NonNil: map[string][]string{}, PureNames: map[string]*FuncContract{}, Guarded: map[string]string{}, Counted: map[string]bool{}, Sinks: map[string][]string{}, FreshOnlyProps: map[string][]string{}, Monotone: map[string]bool{}, Preserved: map[string][]string{}, Callers: map[string][]string{}, CallersProps: map[string][]string{}, Writers: map[string][]string{}, WritersProps: map[string][]string{}}
	f, err := os.Open(path)
	if err != nil {
		if os.IsNotExist(err) {
			return cs, nil
		}
		return nil, err
	}
	defer f.Close()
	sc := bufio.NewScanner(f)
	sc.Buffer(make([]byte, 1<<20), 1<<20)
	var cur *FuncContract
	var curType *TypeInv
	lineNo := 0
	pending := ""
	pendingLine := 0
	for sc.Scan() {
		lineNo++
		raw := sc.Text()
		t := strings.TrimSpace(raw)
		if !strings.HasPrefix(t, "//@") {
			continue
		}
		body := strings.TrimSpace(t[3:])
		if body == "" {
			continue
		}
		for _, m := range countedRe.FindAllStringSubmatch(body, -1) {
			cs.Counted[m[1]] = true
		}
		for _, m := range lastArgRe.FindAllStringSubmatch(body, -1) {
			if cs.LastArg == nil {
				cs.LastArg = map[string]bool{}
			}
			cs.LastArg[m[1]] = true
		}
		if pending != "" {
			body = pending + " " + body
			pending = ""
		} else {
			pendingLine = lineNo
		}
		if strings.HasSuffix(body, "\\") {
			pending = strings.TrimSpace(strings.TrimSuffix(body, "\\"))
			continue
		}
		ln := pendingLine
		cs.Lines++
		// strip trailing comment " // ..."
		if i := strings.Index(body, " //"); i >= 0 && !strings.Contains(body[:i], "\"") {
			body = strings.TrimSpace(body[:i])
		}
		kw, rest := splitWord(body)
		fail := func(e error) error { return fmt.Errorf("%s:%d: %v", path, ln, e) }
		switch kw {
		case "func", "extern", "iface", "functype":
			fc := &FuncContract{Kind: kw, Inv: map[int][]Clause{}, Dec: map[int][]Clause{}, Line: ln, Flags: map[string]bool{}}
			name, params, results, err := parseSig(rest)
			if err != nil {
				return nil, fail(err)
			}
			fc.Name, fc.Params, fc.Results = name, params, results
			if prev, dup := cs.Funcs[name]; dup {
				// a contract may be written in several blocks (grouped by property)
				if prev.Kind != kw {
					return nil, fail(fmt.Errorf("contract for %s redeclared with a different kind", name))
				}
				fc = prev
			} else {
				cs.Funcs[name] = fc
			}
			cur = fc
			curType = nil
		case "type":
			name, rem := splitWord(rest)
			ti := cs.TypeInvs[name]
			if ti == nil {
				ti = &TypeInv{Type: name}
				cs.TypeInvs[name] = ti
			}
			curType = ti
			cur = nil
			if rem != "" {
				k2, r2 := splitWord(rem)
				if k2 == "region" {
					cs.Regions[name] = strings.TrimSpace(r2)
				} else if k2 == "invariant" {
					props, r3 := parseProps(r2)
					e, err := ParseExpr(r3)
					if err != nil {
						return nil, fail(err)
					}
					ti.Clauses = append(ti.Clauses, Clause{Kind: "invariant", Props: props, Expr: e, Src: r3, Line: ln})
				} else {
					return nil, fail(fmt.Errorf("unknown type clause %q", k2))
				}
			}
		case "requires", "ensures":
			if cur == nil {
				return nil, fail(fmt.Errorf("%s outside function contract", kw))
			}
			props, r := parseProps(rest)
			label := ""
			if strings.HasPrefix(r, "@") {
				label, r = splitWord(r[1:])
			}
			e, err := ParseExpr(r)
			if err != nil {
				return nil, fail(err)
			}
			c := Clause{Kind: kw, Props: props, Expr: e, Src: r, Line: ln, Label: label}
			if kw == "requires" {
				cur.Req = append(cur.Req, c)
			} else {
				cur.Ens = append(cur.Ens, c)
			}
		case "invariant", "decreases", "iterend":
			props, r := parseProps(rest)
			if cur == nil && kw == "iterend" {
				return nil, fail(fmt.Errorf("iterend outside function contract"))
			}
			if cur != nil {
				idxs, r2 := splitWord(r)
				k, err := strconv.Atoi(idxs)
				if err != nil {
					return nil, fail(fmt.Errorf("loop index expected after %s", kw))
				}
				props2, r3 := parseProps(r2)
				props = append(props, props2...)
				label := ""
				if strings.HasPrefix(r3, "@") {
					label, r3 = splitWord(r3[1:])
				}
				e, err := ParseExpr(r3)
				if err != nil {
					return nil, fail(err)
				}
				c := Clause{Kind: kw, Props: props, Expr: e, Src: r3, Line: ln, Loop: k, Label: label}
				if kw == "invariant" {
					cur.Inv[k] = append(cur.Inv[k], c)
				} else if kw == "iterend" {
					if cur.IterEnd == nil {
						cur.IterEnd = map[int][]Clause{}
					}
					cur.IterEnd[k] = append(cur.IterEnd[k], c)
				} else {
					cur.Dec[k] = append(cur.Dec[k], c)
				}
			} else if curType != nil && kw == "invariant" {
				e, err := ParseExpr(r)
				if err != nil {
					return nil, fail(err)
				}
				curType.Clauses = append(curType.Clauses, Clause{Kind: "invariant", Props: props, Expr: e, Src: r, Line: ln})
			} else {
				return nil, fail(fmt.Errorf("%s outside contract", kw))
			}
		case "assigns":
			if cur == nil {
				return nil, fail(fmt.Errorf("assigns outside function contract"))
			}
			cur.HasAssigns = true
			for _, k := range strings.Split(rest, ",") {
				k = strings.TrimSpace(k)
				if k != "" && k != "\\nothing" {
					cur.Assigns = append(cur.Assigns, k)
				}
			}
		case "pure":
			// pure [as NAME]: no writes; the result is a function of the arguments (NAME usable in contracts)
			if cur == nil {
				return nil, fail(fmt.Errorf("pure outside function contract"))
			}
			cur.Pure = true
			cur.HasAssigns = true
			if fsx := strings.Fields(rest); len(fsx) == 2 && fsx[0] == "as" {
				cur.PureName = fsx[1]
				cs.PureNames[fsx[1]] = cur
			}
		case "flag":
			if cur == nil {
				return nil, fail(fmt.Errorf("flag outside function contract"))
			}
			for _, k := range strings.Fields(rest) {
				cur.Flags[k] = true
			}
		case "onlyflows":
			// onlyflows {props} <param> <callee> <callee> ...
			if cur == nil {
				return nil, fail(fmt.Errorf("onlyflows outside function contract"))
			}
			props, r := parseProps(rest)
			fsx := strings.Fields(r)
			if len(fsx) < 1 {
				return nil, fail(fmt.Errorf("usage: onlyflows <param> <callee>..."))
			}
			cur.OnlyFlows = append(cur.OnlyFlows, OnlyFlow{Param: fsx[0], Callees: fsx[1:], Props: props})
		case "propagates":
			// propagates {props} [@label] <callee|callee#k|*|!callee> ...
			if cur == nil {
				return nil, fail(fmt.Errorf("propagates outside function contract"))
			}
			props, r := parseProps(rest)
			r = strings.TrimSpace(r)
			label := ""
			if strings.HasPrefix(r, "@") {
				label, r = splitWord(r[1:])
			}
			pg := Propagate{Props: props, Label: label, Line: ln}
			if i := strings.Index(r, " unless "); i >= 0 {
				ux, err := ParseExpr(strings.TrimSpace(r[i+8:]))
				if err != nil {
					return nil, fail(err)
				}
				pg.Unless, pg.UnlessSrc = ux, strings.TrimSpace(r[i+8:])
				r = r[:i]
			}
			for _, f := range strings.Fields(r) {
				if strings.HasPrefix(f, "!") {
					pg.Except = append(pg.Except, f[1:])
				} else {
					pg.Callees = append(pg.Callees, f)
				}
			}
			if len(pg.Callees) == 0 {
				return nil, fail(fmt.Errorf("usage: propagates {props} [@label] <callee>..."))
			}
			cur.Propagates = append(cur.Propagates, pg)
		case "ghostset":
			if cur == nil {
				return nil, fail(fmt.Errorf("ghostset outside function contract"))
			}
			name, r := splitWord(rest)
			r = strings.TrimSpace(strings.TrimPrefix(strings.TrimSpace(r), "="))
			e, err := ParseExpr(r)
			if err != nil {
				return nil, fail(err)
			}
			cur.GhostUpd = append(cur.GhostUpd, GhostUpdate{Name: name, Expr: e, Src: r})
		case "spec":
			sf, err := parseSpec(rest)
			if err != nil {
				return nil, fail(err)
			}
			cs.Specs[sf.Name] = sf
			cs.SpecOrder = append(cs.SpecOrder, sf.Name)
			cur, curType = nil, nil
		case "axiom":
			props, r := parseProps(rest)
			e, err := ParseExpr(r)
			if err != nil {
				return nil, fail(err)
			}
			cs.Axioms = append(cs.Axioms, Clause{Kind: "axiom", Props: props, Expr: e, Src: r, Line: ln})
			cur, curType = nil, nil
		case "guarded":
			// guarded T.f by T.m
			fsx := strings.Fields(rest)
			if len(fsx) != 3 || fsx[1] != "by" {
				return nil, fail(fmt.Errorf("usage: guarded T.field by T.mutexfield"))
			}
			cs.Guarded[fsx[0]] = fsx[2]
			cur, curType = nil, nil
		case "monotone":
			cs.Monotone[strings.TrimSpace(rest)] = true
			cur, curType = nil, nil
		case "preserved":
			// preserved {props} T.f : every function leaves the field of every object as it found it (balanced updates)
			props, r := parseProps(rest)
			cs.Preserved[strings.TrimSpace(r)] = props
			cur, curType = nil, nil
		case "callers":
			// callers {props} <callee> <func> <func> ...
			props, r := parseProps(rest)
			fsx := strings.Fields(r)
			if len(fsx) < 1 {
				return nil, fail(fmt.Errorf("usage: callers <callee> <func>..."))
			}
			cs.Callers[fsx[0]] = fsx[1:]
			cs.CallersProps[fsx[0]] = props
			cur, curType = nil, nil
		case "sinks":
			// sinks {props} callee... : every call to one of the callees must be classified by an
			// `at <callee> requires` clause of the calling function
			props, r := parseProps(rest)
			for _, n := range strings.Fields(r) {
				cs.Sinks[n] = props
			}
			cur, curType = nil, nil
		case "nonnil":
			// nonnil {props} key... : the pointers held under these keys (slice elements E|..., map values MV|...,
			// interface boxes B|*T) are never nil: proved at every write, used at every read
			props, r := parseProps(rest)
			for _, k := range strings.Fields(r) {
				cs.NonNil[k] = props
			}
			cur, curType = nil, nil
		case "reentry":
			// reentry {props} F [G...]: no call of F from code reachable from F or G
			props, r := parseProps(rest)
			fsx := strings.Fields(r)
			if len(fsx) == 0 {
				return nil, fail(fmt.Errorf("usage: reentry {props} F [G...]"))
			}
			cs.Reentry = append(cs.Reentry, ReentryDecl{Funcs: fsx, Props: props})
			cur, curType = nil, nil
		case "ignorable-errors":
			// ignorable-errors callee... : "propagates *" does not cover calls to these
			if cs.IgnorableErr == nil {
				cs.IgnorableErr = map[string]bool{}
			}
			for _, k := range strings.Fields(rest) {
				cs.IgnorableErr[k] = true
			}
			cur, curType = nil, nil
		case "freshonly":
			// freshonly {props} T [T...] : every field of the struct types is written only on objects the
			// writing function allocated itself (compiled tree nodes are immutable once built)
			props, r := parseProps(rest)
			for _, tn := range strings.Fields(r) {
				cs.FreshOnlyTypes = append(cs.FreshOnlyTypes, tn)
				cs.FreshOnlyProps[tn] = props
			}
			cur, curType = nil, nil
		case "writers":
			// writers {props} <key> <func> <func> ...
			props, r := parseProps(rest)
			fsx := strings.Fields(r)
			if len(fsx) < 1 {
				return nil, fail(fmt.Errorf("usage: writers <heap key> <func>..."))
			}
			cs.Writers[fsx[0]] = fsx[1:]
			cs.WritersProps[fsx[0]] = props
			cur, curType = nil, nil
		case "at":
			// at <callee> requires {props} expr   (inside a func contract: obligation at each call to callee)
			if cur == nil {
				return nil, fail(fmt.Errorf("at outside function contract"))
			}
			callee, r := splitWord(rest)
			kw2, r2 := splitWord(r)
			if kw2 != "requires" {
				return nil, fail(fmt.Errorf("usage: at <callee> requires <expr>"))
			}
			props, r3 := parseProps(r2)
			label := ""
			if strings.HasPrefix(r3, "@") {
				label, r3 = splitWord(r3[1:])
			}
			e, err := ParseExpr(r3)
			if err != nil {
				return nil, fail(err)
			}
			cur.At = append(cur.At, AtClause{Callee: callee, Clause: Clause{Kind: "at", Props: props, Expr: e, Src: r3, Line: ln, Label: label}})
		case "ghost":
			name, typ := splitWord(rest)
			cs.Ghosts[name] = &GhostVar{Name: name, Type: strings.TrimSpace(typ)}
			cs.GhostOrder = append(cs.GhostOrder, name)
			cur, curType = nil, nil
		default:
			return nil, fail(fmt.Errorf("unknown contract keyword %q", kw))
		}
	}
	return cs, sc.Err()
}

func splitWord(s string) (string, string) {
	s = strings.TrimSpace(s)
	i := strings.IndexFunc(s, unicode.IsSpace)
	if i < 0 {
		return s, ""
	}
	return s[:i], strings.TrimSpace(s[i:])
}

func parseProps(s string) ([]string, string) {
	s = strings.TrimSpace(s)
	if !strings.HasPrefix(s, "{") {
		return nil, s
	}
	j := strings.Index(s, "}")
	if j < 0 {
		return nil, s
	}
	var props []string
	for _, p := range strings.Split(s[1:j], ",") {
		p = strings.TrimSpace(p)
		if p != "" {
			props = append(props, p)
		}
	}
	return props, strings.TrimSpace(s[j+1:])
}

// parseSig parses  NAME [ (p1, p2 T, ...) [ (r1, r2) ] ]
func parseSig(s string) (name string, params, results []string, err error) {
	s = strings.TrimSpace(s)
	// the name may itself contain parentheses: (*T).M  or (*T).M$1
	i := 0
	if strings.HasPrefix(s, "(") {
		j := strings.Index(s, ")")
		if j < 0 {
			return "", nil, nil, fmt.Errorf("bad signature %q", s)
		}
		i = j + 1
	}
	for i < len(s) && s[i] != '(' && !unicode.IsSpace(rune(s[i])) {
		i++
	}
	name = s[:i]
	rest := strings.TrimSpace(s[i:])
	if rest == "" {
		return name, nil, nil, nil
	}
	grp := func(r string) ([]string, string, error) {
		if !strings.HasPrefix(r, "(") {
			return nil, r, fmt.Errorf("expected ( in signature %q", s)
		}
		j := strings.Index(r, ")")
		if j < 0 {
			return nil, r, fmt.Errorf("unbalanced signature %q", s)
		}
		var names []string
		for _, p := range strings.Split(r[1:j], ",") {
			p = strings.TrimSpace(p)
			if p == "" {
				continue
			}
			w, _ := splitWord(p)
			names = append(names, w)
		}
		return names, strings.TrimSpace(r[j+1:]), nil
	}
	params, rest, err = grp(rest)
	if err != nil {
		return
	}
	if rest != "" {
		results, rest, err = grp(rest)
	}
	return
}

func parseSpec(s string) (*SpecFn, error) {
	// NAME(a T, b U) R [= expr]
	i := strings.Index(s, "(")
	if i < 0 {
		return nil, fmt.Errorf("bad spec %q", s)
	}
	sf := &SpecFn{Name: strings.TrimSpace(s[:i]), Src: s}
	depth := 0
	j := i
	for ; j < len(s); j++ {
		if s[j] == '(' {
			depth++
		} else if s[j] == ')' {
			depth--
			if depth == 0 {
				break
			}
		}
	}
	if j >= len(s) {
		return nil, fmt.Errorf("bad spec %q", s)
	}
	ps := strings.TrimSpace(s[i+1 : j])
	if ps != "" {
		for _, p := range strings.Split(ps, ",") {
			n, t := splitWord(p)
			sf.Params = append(sf.Params, QVar{Name: n, Type: t})
		}
	}
	rest := strings.TrimSpace(s[j+1:])
	if k := strings.Index(rest, "="); k >= 0 && !strings.HasPrefix(rest[k:], "==") {
		sf.Result = strings.TrimSpace(rest[:k])
		e, err := ParseExpr(strings.TrimSpace(rest[k+1:]))
		if err != nil {
			return nil, err
		}
		sf.Body = e
	} else {
		sf.Result = rest
	}
	if sf.Result == "" {
		return nil, fmt.Errorf("spec %s: result type missing", sf.Name)
	}
	return sf, nil
}

// ---------- expression parser ----------

type tok struct {
	kind string // id, int, str, op, eof
	val  string
}

type exprParser struct {
	toks []tok
	pos  int
	src  string
}

func lexExpr(s string) ([]tok, error) {
	var out []tok
	i := 0
	for i < len(s) {
		c := s[i]
		switch {
		case c == ' ' || c == '\t':
			i++
		case unicode.IsLetter(rune(c)) || c == '_' || c == '\\':
			j := i + 1
			for j < len(s) && (unicode.IsLetter(rune(s[j])) || unicode.IsDigit(rune(s[j])) || s[j] == '_' || s[j] == '$') {
				j++
			}
			out = append(out, tok{"id", s[i:j]})
			i = j
		case unicode.IsDigit(rune(c)):
			j := i + 1
			for j < len(s) && (unicode.IsDigit(rune(s[j])) || s[j] == 'x' || (s[j] >= 'a' && s[j] <= 'f') || (s[j] >= 'A' && s[j] <= 'F')) {
				j++
			}
			out = append(out, tok{"int", s[i:j]})
			i = j
		case c == '"':
			j := i + 1
			for j < len(s) && s[j] != '"' {
				if s[j] == '\\' {
					j++
				}
				j++
			}
			if j >= len(s) {
				return nil, fmt.Errorf("unterminated string in %q", s)
			}
			v, err := strconv.Unquote(s[i : j+1])
			if err != nil {
				return nil, fmt.Errorf("bad string %s: %v", s[i:j+1], err)
			}
			out = append(out, tok{"str", v})
			i = j + 1
		case c == '\'':
			j := i + 1
			for j < len(s) && s[j] != '\'' {
				if s[j] == '\\' {
					j++
				}
				j++
			}
			if j >= len(s) {
				return nil, fmt.Errorf("unterminated rune in %q", s)
			}
			r, _, _, err := strconv.UnquoteChar(s[i+1:j], '\'')
			if err != nil {
				return nil, err
			}
			out = append(out, tok{"int", strconv.Itoa(int(r))})
			i = j + 1
		default:
			ops := []string{"<==>", "==>", "::", "==", "!=", "<=", ">=", "&&", "||", "..", "(", ")", "[", "]", ",", ".", "+", "-", "*", "/", "%", "<", ">", "!", ":", "?"}
			matched := false
			for _, op := range ops {
				if strings.HasPrefix(s[i:], op) {
					out = append(out, tok{"op", op})
					i += len(op)
					matched = true
					break
				}
			}
			if !matched {
				return nil, fmt.Errorf("unexpected character %q in %q", c, s)
			}
		}
	}
	out = append(out, tok{"eof", ""})
	return out, nil
}

func ParseExpr(s string) (Expr, error) {
	toks, err := lexExpr(s)
	if err != nil {
		return nil, err
	}
	p := &exprParser{toks: toks, src: s}
	e, err := p.parseQuant()
	if err != nil {
		return nil, err
	}
	if p.peek().kind != "eof" {
		return nil, fmt.Errorf("trailing input at %q in %q", p.peek().val, s)
	}
	return e, nil
}

func (p *exprParser) peek() tok { return p.toks[p.pos] }
func (p *exprParser) next() tok  { t := p.toks[p.pos]; p.pos++; return t }
func (p *exprParser) isOp(v string) bool {
	t := p.peek()
	return t.kind == "op" && t.val == v
}
func (p *exprParser) expectOp(v string) error {
	if !p.isOp(v) {
		return fmt.Errorf("expected %q at %q in %q", v, p.peek().val, p.src)
	}
	p.pos++
	return nil
}

// collects a type expression up to one of the stop operators at depth 0
func (p *exprParser) parseTypeText(stops ...string) string {
	var sb strings.Builder
	depth := 0
	for {
		t := p.peek()
		if t.kind == "eof" {
			break
		}
		if t.kind == "op" && depth == 0 {
			stop := false
			for _, s := range stops {
				if t.val == s {
					stop = true
				}
			}
			if stop {
				break
			}
		}
		if t.kind == "op" && (t.val == "(" || t.val == "[") {
			depth++
		}
		if t.kind == "op" && (t.val == ")" || t.val == "]") {
			depth--
		}
		sb.WriteString(t.val)
		p.pos++
	}
	return sb.String()
}

func (p *exprParser) parseQuant() (Expr, error) {
	t := p.peek()
	if t.kind == "id" && (t.val == "forall" || t.val == "exists") {
		p.pos++
		var vars []QVar
		for {
			n := p.next()
			if n.kind != "id" {
				return nil, fmt.Errorf("quantifier variable expected in %q", p.src)
			}
			typ := p.parseTypeText(",", "::")
			vars = append(vars, QVar{Name: n.val, Type: typ})
			if p.isOp(",") {
				p.pos++
				continue
			}
			break
		}
		if err := p.expectOp("::"); err != nil {
			return nil, err
		}
		body, err := p.parseQuant()
		if err != nil {
			return nil, err
		}
		return &EQuant{Forall: t.val == "forall", Vars: vars, Body: body}, nil
	}
	return p.parseIff()
}

func (p *exprParser) parseIff() (Expr, error) {
	l, err := p.parseImpl()
	if err != nil {
		return nil, err
	}
	for p.isOp("<==>") {
		p.pos++
		r, err := p.parseImpl()
		if err != nil {
			return nil, err
		}
		l = &EBin{Op: "<==>", L: l, R: r}
	}
	return l, nil
}

func (p *exprParser) parseImpl() (Expr, error) {
	l, err := p.parseOr()
	if err != nil {
		return nil, err
	}
	if p.isOp("==>") {
		p.pos++
		// right assoc; rhs may be a quantifier
		var r Expr
		if t := p.peek(); t.kind == "id" && (t.val == "forall" || t.val == "exists") {
			r, err = p.parseQuant()
		} else {
			r, err = p.parseImpl()
		}
		if err != nil {
			return nil, err
		}
		return &EBin{Op: "==>", L: l, R: r}, nil
	}
	return l, nil
}

func (p *exprParser) parseOr() (Expr, error) {
	l, err := p.parseAnd()
	if err != nil {
		return nil, err
	}
	for p.isOp("||") {
		p.pos++
		r, err := p.parseAnd()
		if err != nil {
			return nil, err
		}
		l = &EBin{Op: "||", L: l, R: r}
	}
	return l, nil
}

func (p *exprParser) parseAnd() (Expr, error) {
	l, err := p.parseCmp()
	if err != nil {
		return nil, err
	}
	for p.isOp("&&") {
		p.pos++
		r, err := p.parseCmp()
		if err != nil {
			return nil, err
		}
		l = &EBin{Op: "&&", L: l, R: r}
	}
	return l, nil
}

func (p *exprParser) parseCmp() (Expr, error) {
	l, err := p.parseAdd()
	if err != nil {
		return nil, err
	}
	// allow chains a <= b < c
	var res Expr
	for {
		t := p.peek()
		if t.kind == "op" && (t.val == "==" || t.val == "!=" || t.val == "<" || t.val == "<=" || t.val == ">" || t.val == ">=") {
			p.pos++
			r, err := p.parseAdd()
			if err != nil {
				return nil, err
			}
			c := &EBin{Op: t.val, L: l, R: r}
			if res == nil {
				res = c
			} else {
				res = &EBin{Op: "&&", L: res, R: c}
			}
			l = r
			continue
		}
		break
	}
	if res == nil {
		return l, nil
	}
	return res, nil
}

func (p *exprParser) parseAdd() (Expr, error) {
	l, err := p.parseMul()
	if err != nil {
		return nil, err
	}
	for p.isOp("+") || p.isOp("-") {
		op := p.next().val
		r, err := p.parseMul()
		if err != nil {
			return nil, err
		}
		l = &EBin{Op: op, L: l, R: r}
	}
	return l, nil
}

func (p *exprParser) parseMul() (Expr, error) {
	l, err := p.parseUnary()
	if err != nil {
		return nil, err
	}
	for p.isOp("*") || p.isOp("/") || p.isOp("%") {
		op := p.next().val
		r, err := p.parseUnary()
		if err != nil {
			return nil, err
		}
		l = &EBin{Op: op, L: l, R: r}
	}
	return l, nil
}

func (p *exprParser) parseUnary() (Expr, error) {
	if p.isOp("!") {
		p.pos++
		x, err := p.parseUnary()
		if err != nil {
			return nil, err
		}
		return &EUn{Op: "!", X: x}, nil
	}
	if p.isOp("-") {
		p.pos++
		x, err := p.parseUnary()
		if err != nil {
			return nil, err
		}
		return &EUn{Op: "-", X: x}, nil
	}
	return p.parsePostfix()
}

func (p *exprParser) parsePostfix() (Expr, error) {
	x, err := p.parsePrimary()
	if err != nil {
		return nil, err
	}
	for {
		if p.isOp(".") {
			p.pos++
			n := p.next()
			if n.kind != "id" {
				return nil, fmt.Errorf("field name expected in %q", p.src)
			}
			x = &EField{X: x, Name: n.val}
			continue
		}
		if p.isOp("[") {
			p.pos++
			i, err := p.parseQuant()
			if err != nil {
				return nil, err
			}
			if err := p.expectOp("]"); err != nil {
				return nil, err
			}
			x = &EIndex{X: x, I: i}
			continue
		}
		break
	}
	return x, nil
}

func (p *exprParser) parsePrimary() (Expr, error) {
	t := p.next()
	switch t.kind {
	case "int":
		return &EInt{V: t.val}, nil
	case "str":
		return &EStr{V: t.val}, nil
	case "id":
		switch t.val {
		case "true":
			return &EBool{V: true}, nil
		case "false":
			return &EBool{V: false}, nil
		case "nil":
			return &ENil{}, nil
		case "forall", "exists":
			p.pos--
			return p.parseQuant()
		}
		if p.isOp("(") {
			p.pos++
			var args []Expr
			if !p.isOp(")") {
				for {
					a, err := p.parseQuant()
					if err != nil {
						return nil, err
					}
					args = append(args, a)
					if p.isOp(",") {
						p.pos++
						continue
					}
					break
				}
			}
			if err := p.expectOp(")"); err != nil {
				return nil, err
			}
			return &ECall{Fn: t.val, Args: args}, nil
		}
		return &EIdent{Name: t.val}, nil
	case "op":
		if t.val == "(" {
			e, err := p.parseQuant()
			if err != nil {
				return nil, err
			}
			if err := p.expectOp(")"); err != nil {
				return nil, err
			}
			return e, nil
		}
	}
	return nil, fmt.Errorf("unexpected token %q in %q", t.val, p.src)
}
