package main

import (
	"go/types"
	"sort"
	"strings"

	"golang.org/x/tools/go/ssa"
)

// extra program-level tables

func (p *Prog) FuncID(f *ssa.Function) int {
	p.mu.Lock()
	defer p.mu.Unlock()
	if p.funcIDs == nil {
		p.funcIDs = map[string]int{}
	}
	k := f.String()
	if id, ok := p.funcIDs[k]; ok {
		return id
	}
	// stable: ids are assigned from the sorted list of all package functions first
	if len(p.funcIDs) == 0 {
		for i, fn := range p.FuncList {
			p.funcIDs[fn.String()] = i + 1
		}
		if id, ok := p.funcIDs[k]; ok {
			return id
		}
	}
	id := len(p.funcIDs) + 1
	p.funcIDs[k] = id
	return id
}

func (p *Prog) StrID(s string) int {
	p.mu.Lock()
	defer p.mu.Unlock()
	if p.strIDs == nil {
		p.strIDs = map[string]int{}
	}
	if id, ok := p.strIDs[s]; ok {
		return id
	}
	id := len(p.strIDs) + 1
	p.strIDs[s] = id
	return id
}

// resolveDyn resolves the dynamic parts of a modInfo (function values, interfaces, reflection).
func (p *Prog) resolveDyn(mi *modInfo) KeySet {
	ks := KeySet{}
	if p.modInfos == nil {
		return ks
	}
	for _, sig := range mi.dynSigs {
		for f := range p.addrTaken {
			if sigMatches(f.Signature, sig) {
				if mi.owner != nil {
					if tg, ok := p.vtaCallees[mi.owner]; ok {
						// VTA reports bound-method wrappers; f is the method itself
						found := false
						for t := range tg {
							if t == f || unwrapSynthetic(t) == f {
								found = true
								break
							}
						}
						if !found {
							continue
						}
					}
				}
				ks.AddAll(p.ModSets[f])
			}
		}
	}
	for _, ic := range mi.ifaceCalls {
		for _, f := range p.methodImpls(ic) {
			ks.AddAll(p.ModSets[f])
		}
	}
	if mi.reflective {
		for f := range p.boxedFns {
			ks.AddAll(p.ModSets[f])
		}
		for _, m := range p.exportedMethods {
			ks.AddAll(p.ModSets[m])
		}
	}
	return ks
}

func (p *Prog) methodImpls(ic ifaceCall) []*ssa.Function {
	var out []*ssa.Function
	for _, T := range p.implementers(ic.iface) {
		ms := p.SSAProg.MethodSets.MethodSet(T)
		for i := 0; i < ms.Len(); i++ {
			if ms.At(i).Obj().Name() == ic.method {
				if f := p.SSAProg.MethodValue(ms.At(i)); f != nil {
					out = append(out, unwrapSynthetic(f))
				}
			}
		}
	}
	return out
}

// calleesOf: static + resolved dynamic callees (for reachability and cycle analysis).
func (p *Prog) calleesOf(fn *ssa.Function) []*ssa.Function {
	mi := p.modInfos[fn]
	if mi == nil {
		return nil
	}
	set := map[*ssa.Function]bool{}
	for c := range mi.callees {
		set[c] = true
	}
	var out []*ssa.Function
	for c := range set {
		if c != nil && c.Blocks != nil {
			out = append(out, c)
		}
	}
	sort.Slice(out, func(i, j int) bool { return out[i].String() < out[j].String() })
	return out
}

// compileEntry: the set's compile API; execution reachability is cut here (DESIGN C04).
func (p *Prog) isCompileEntry(fn *ssa.Function) bool {
	switch p.FuncName(fn) {
	case "(*TemplateSet).FromFile", "(*TemplateSet).FromString", "(*TemplateSet).FromBytes", "(*TemplateSet).FromCache",
		"newTemplate", "newTemplateString", "lex", "(*Template).parse":
		return true
	}
	return false
}

// ComputeExecReach: functions reachable from execution entry points without going through the compile API.
func (p *Prog) ComputeExecReach() {
	p.ExecReach = map[*ssa.Function]bool{}
	var roots []*ssa.Function
	for _, fn := range p.FuncList {
		name := p.FuncName(fn)
		base := fn.Name()
		switch {
		case name == "(*Template).execute", name == "(*Template).ExecuteBlocks", name == "ApplyFilter",
			name == "(*Template).newContextForExecution", name == "(*filterCall).Execute":
			roots = append(roots, fn)
		case fn.Signature.Recv() != nil && (base == "Execute" || base == "Evaluate" || base == "FilterApplied" || base == "GetPositionToken"):
			roots = append(roots, fn)
		case strings.HasPrefix(name, "filter") && fn.Signature.Recv() == nil && fn.Parent() == nil:
			// registered filter functions
			if ft, _ := p.LookupType("FilterFunction"); ft != nil {
				if sig, ok := ft.Underlying().(*types.Signature); ok && sigMatches(fn.Signature, sig) {
					roots = append(roots, fn)
				}
			}
		}
	}
	var stack []*ssa.Function
	for _, r := range roots {
		if !p.ExecReach[r] {
			p.ExecReach[r] = true
			stack = append(stack, r)
		}
	}
	for len(stack) > 0 {
		f := stack[len(stack)-1]
		stack = stack[:len(stack)-1]
		for _, c := range p.calleesOf(f) {
			if p.ExecReach[c] || p.isCompileEntry(c) {
				continue
			}
			if c.Pkg != p.SSAPkg {
				continue
			}
			p.ExecReach[c] = true
			if p.ExecWhy == nil {
				p.ExecWhy = map[*ssa.Function]*ssa.Function{}
			}
			p.ExecWhy[c] = f
			stack = append(stack, c)
		}
	}
}

func (p *Prog) isLoaderMethod(fn *ssa.Function) bool {
	recv := fn.Signature.Recv()
	if recv == nil {
		// constructors of loaders may stat the base directory
		return false
	}
	lt, err := p.LookupType("TemplateLoader")
	if err != nil {
		return false
	}
	it := lt.Underlying().(*types.Interface)
	rt := recv.Type()
	if types.Implements(rt, it) {
		return true
	}
	if pt, ok := rt.(*types.Pointer); ok {
		return types.Implements(pt.Elem(), it) || types.Implements(rt, it)
	}
	return types.Implements(types.NewPointer(rt), it)
}
