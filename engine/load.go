package main

import (
	"crypto/sha1"
	"go/constant"
	"encoding/hex"
	"fmt"
	"sync"
	"go/token"
	"go/types"
	"os"
	"path/filepath"
	"sort"
	"strings"

	"golang.org/x/tools/go/packages"
	"golang.org/x/tools/go/ssa"
	"golang.org/x/tools/go/ssa/ssautil"
)

// Prog is everything loaded from the working tree of the repository.
type Prog struct {
	calleeSorts map[string][]Sort // result sorts of callees by name (lastresult stand-ins)
	RepoDir string
	Fset    *token.FileSet
	Pkg     *packages.Package
	SSAProg *ssa.Program
	SSAPkg  *ssa.Package
	Types   *types.Package

	Funcs    map[string]*ssa.Function // by RelString name
	FuncList []*ssa.Function          // sorted by name

	Contracts *Contracts

	ModSets map[*ssa.Function]KeySet // inferred write sets (transitive)

	typeIDs   map[string]int
	typeByID  []types.Type
	strConsts map[string]string

	funcIDs         map[string]int
	strIDs          map[string]int
	modInfos        map[*ssa.Function]*modInfo
	addrTaken       map[*ssa.Function]bool
	rooted          map[*ssa.Function]map[string]int // object-precise write sets (rooted.go)
	returnsNil      map[*ssa.Function]map[int]bool   // results that may be a nil pointer (nilcheck.go)
	exportedMethods []*ssa.Function
	boxedFns        map[*ssa.Function]bool
	vtaCallees      map[*ssa.Function]map[*ssa.Function]bool
	boxedTypes      map[string]types.Type
	externGlobals   map[string]*ssa.Global
	ExecReach       map[*ssa.Function]bool
	ExecWhy         map[*ssa.Function]*ssa.Function
	allKeys         KeySet
	structBySort    map[string]types.Type
	globalStr       map[*ssa.Global]*string
	mu              sync.Mutex
	srcLines        map[string][]string
	inlineOK        map[*ssa.Function]bool
	externResult    map[string]types.Type
	InitOnly        map[string]bool
	AppendOnly      map[string]bool
}

func LoadProg(repo string) (*Prog, error) {
	cfg := &packages.Config{
		Mode:       packages.LoadAllSyntax,
		Dir:        repo,
		BuildFlags: []string{"-tags=verif"},
		Env:        append(os.Environ(), "GOFLAGS=-mod=mod", "GOPROXY=off", "GOSUMDB=off", "GOTOOLCHAIN=local"),
	}
	pkgs, err := packages.Load(cfg, ".")
	if err != nil {
		return nil, err
	}
	if len(pkgs) != 1 {
		return nil, fmt.Errorf("expected 1 package, got %d", len(pkgs))
	}
	if len(pkgs[0].Errors) > 0 {
		return nil, fmt.Errorf("package errors: %v", pkgs[0].Errors)
	}
	prog, spkgs := ssautil.AllPackages(pkgs, ssa.InstantiateGenerics|ssa.GlobalDebug)
	prog.Build()
	p := &Prog{
		RepoDir: repo,
		Fset:    pkgs[0].Fset,
		Pkg:     pkgs[0],
		SSAProg: prog,
		SSAPkg:  spkgs[0],
		Types:   pkgs[0].Types,
		Funcs:   map[string]*ssa.Function{},
		typeIDs: map[string]int{},
		typeByID: []types.Type{nil},
		strConsts: map[string]string{},
	}
	for fn := range ssautil.AllFunctions(prog) {
		if fn.Pkg != p.SSAPkg || fn.Blocks == nil {
			continue
		}
		if fn.Synthetic != "" && !strings.HasPrefix(fn.Synthetic, "package initializer") {
			// wrappers, bound method closures, thunks: skip (they only forward)
			continue
		}
		name := p.FuncName(fn)
		if _, dup := p.Funcs[name]; dup {
			continue
		}
		p.Funcs[name] = fn
		p.FuncList = append(p.FuncList, fn)
	}
	sort.Slice(p.FuncList, func(i, j int) bool { return p.FuncName(p.FuncList[i]) < p.FuncName(p.FuncList[j]) })

	cpath := filepath.Join(repo, "verif_contracts.go")
	cs, err := ParseContractsFile(cpath)
	if err != nil {
		return nil, err
	}
	p.Contracts = cs
	p.preassignIDs()
	return p, nil
}

// FuncName is the stable name used in contracts and obligation names.
func (p *Prog) FuncName(fn *ssa.Function) string {
	return fn.RelString(p.Types)
}

// lineHash: 6 hex digits identifying the text of the source line at pos (whitespace-insensitive).
func (p *Prog) lineHash(pos token.Pos) string {
	if !pos.IsValid() {
		return "000000"
	}
	po := p.Fset.Position(pos)
	p.mu.Lock()
	defer p.mu.Unlock()
	if p.srcLines == nil {
		p.srcLines = map[string][]string{}
	}
	lines, ok := p.srcLines[po.Filename]
	if !ok {
		b, err := os.ReadFile(po.Filename)
		if err == nil {
			lines = strings.Split(string(b), "\n")
		}
		p.srcLines[po.Filename] = lines
	}
	if po.Line-1 >= len(lines) || po.Line < 1 {
		return "000000"
	}
	txt := strings.Join(strings.Fields(lines[po.Line-1]), " ")
	h := sha1.Sum([]byte(txt))
	return hex.EncodeToString(h[:3])
}

func (p *Prog) Pos(pos token.Pos) string {
	if !pos.IsValid() {
		return ""
	}
	po := p.Fset.Position(pos)
	return fmt.Sprintf("%s:%d", filepath.Base(po.Filename), po.Line)
}

// TypeID gives a stable small integer per Go type (used as dynamic type tag).
func (p *Prog) TypeID(t types.Type) int {
	p.mu.Lock()
	defer p.mu.Unlock()
	// byte/uint8 and rune/int32 are the same type
	if b, ok := t.(*types.Basic); ok && b.Kind() != types.Invalid && int(b.Kind()) < len(types.Typ) && types.Typ[b.Kind()] != nil {
		t = types.Typ[b.Kind()]
	}
	k := types.TypeString(t, nil)
	if id, ok := p.typeIDs[k]; ok {
		return id
	}
	id := len(p.typeByID)
	p.typeIDs[k] = id
	p.typeByID = append(p.typeByID, t)
	return id
}

// relTypeString is the package-relative spelling of a type.
func (p *Prog) relTypeString(t types.Type) string {
	return types.TypeString(t, types.RelativeTo(p.Types))
}

// LookupType resolves a type expression in package scope (e.g. "*Value", "[]string").
func (p *Prog) LookupType(expr string) (types.Type, error) {
	expr = strings.TrimSpace(expr)
	// qualified names of imported packages (types.Eval at package scope does not see file-level imports)
	if strings.HasPrefix(expr, "*") {
		t, err := p.LookupType(expr[1:])
		if err != nil {
			return nil, err
		}
		return types.NewPointer(t), nil
	}
	if strings.HasPrefix(expr, "[]") {
		t, err := p.LookupType(expr[2:])
		if err != nil {
			return nil, err
		}
		return types.NewSlice(t), nil
	}
	if i := strings.Index(expr, "."); i > 0 && !strings.ContainsAny(expr, "[]( ") {
		pkgName, name := expr[:i], expr[i+1:]
		for _, imp := range p.Types.Imports() {
			if imp.Name() == pkgName {
				if obj := imp.Scope().Lookup(name); obj != nil {
					return obj.Type(), nil
				}
			}
		}
		return nil, fmt.Errorf("unknown type %s", expr)
	}
	tv, err := types.Eval(p.Fset, p.Types, token.NoPos, "*new("+expr+")")
	if err != nil {
		return nil, err
	}
	return tv.Type, nil
}

// implementers returns the in-package concrete types implementing iface.
func (p *Prog) implementers(iface *types.Interface) []types.Type {
	var out []types.Type
	scope := p.Types.Scope()
	for _, n := range scope.Names() {
		tn, ok := scope.Lookup(n).(*types.TypeName)
		if !ok {
			continue
		}
		T := tn.Type()
		if types.IsInterface(T) {
			continue
		}
		if types.Implements(T, iface) {
			out = append(out, T)
		} else if types.Implements(types.NewPointer(T), iface) {
			out = append(out, types.NewPointer(T))
		}
	}
	return out
}

// preassignIDs gives types and string constants ids in a deterministic (sorted) order,
// so that generated scripts are identical from run to run.
func (p *Prog) preassignIDs() {
	tset := map[string]types.Type{}
	sset := map[string]bool{}
	for _, fn := range p.FuncList {
		for _, b := range fn.Blocks {
			for _, in := range b.Instrs {
				switch x := in.(type) {
				case *ssa.MakeInterface:
					tset[types.TypeString(x.X.Type(), nil)] = x.X.Type()
				case *ssa.TypeAssert:
					tset[types.TypeString(x.AssertedType, nil)] = x.AssertedType
				}
				for _, op := range in.Operands(nil) {
					if op == nil || *op == nil {
						continue
					}
					if c, ok := (*op).(*ssa.Const); ok && c.Value != nil && c.Value.Kind() == constant.String {
						sset[constant.StringVal(c.Value)] = true
					}
				}
			}
		}
	}
	// every named type of the package (and its pointer type), the basic types, and the types/strings named in contracts
	scope := p.Types.Scope()
	for _, n := range scope.Names() {
		if tn, ok := scope.Lookup(n).(*types.TypeName); ok {
			tset[types.TypeString(tn.Type(), nil)] = tn.Type()
			pt := types.NewPointer(tn.Type())
			tset[types.TypeString(pt, nil)] = pt
		}
	}
	for _, bt := range types.Typ {
		if bt != nil && bt.Kind() != types.Invalid {
			tset[types.TypeString(bt, nil)] = bt
		}
	}
	var walk func(x Expr)
	walk = func(x Expr) {
		switch n := x.(type) {
		case *EStr:
			sset[n.V] = true
			if t, err := p.LookupType(n.V); err == nil && t != nil {
				tset[types.TypeString(t, nil)] = t
			}
		case *EBin:
			walk(n.L)
			walk(n.R)
		case *EUn:
			walk(n.X)
		case *ECall:
			for _, a := range n.Args {
				walk(a)
			}
		case *EField:
			walk(n.X)
		case *EIndex:
			walk(n.X)
			walk(n.I)
		case *EQuant:
			walk(n.Body)
		}
	}
	for _, fc := range p.Contracts.Funcs {
		for _, cl := range fc.Req {
			walk(cl.Expr)
		}
		for _, cl := range fc.Ens {
			walk(cl.Expr)
		}
		for _, cls := range fc.Inv {
			for _, cl := range cls {
				walk(cl.Expr)
			}
		}
		for _, at := range fc.At {
			walk(at.Clause.Expr)
		}
		for _, g := range fc.GhostUpd {
			walk(g.Expr)
		}
	}
	for _, ti := range p.Contracts.TypeInvs {
		for _, cl := range ti.Clauses {
			walk(cl.Expr)
		}
	}
	for _, ax := range p.Contracts.Axioms {
		walk(ax.Expr)
	}
	for _, sf := range p.Contracts.Specs {
		if sf.Body != nil {
			walk(sf.Body)
		}
	}
	var tk []string
	for k := range tset {
		tk = append(tk, k)
	}
	sort.Strings(tk)
	for _, k := range tk {
		p.TypeID(tset[k])
	}
	var sk []string
	for k := range sset {
		sk = append(sk, k)
	}
	sort.Strings(sk)
	for _, k := range sk {
		p.StrID(k)
	}
	p.FuncID(p.FuncList[0])
}
