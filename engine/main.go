package main

import (
	"flag"
	"fmt"
	"os"
	"regexp"
	"runtime"
	"sort"
	"strings"
	"sync"
	"time"

	"golang.org/x/tools/go/ssa"
)

func usage() {
	fmt.Fprintln(os.Stderr, "usage: pvc run|dump|check|audit|list ...")
	os.Exit(2)
}

func main() {
	if len(os.Args) < 2 {
		usage()
	}
	switch os.Args[1] {
	case "run":
		cmdRun(os.Args[2:])
	case "dump":
		cmdDump(os.Args[2:])
	case "list":
		cmdList(os.Args[2:])
	case "check":
		cmdCheck(os.Args[2:])
	case "replay":
		cmdReplay(os.Args[2:])
	default:
		usage()
	}
}

func mustLoad(repo string) *Prog {
	t0 := time.Now()
	p, err := LoadProg(repo)
	if err != nil {
		fmt.Fprintln(os.Stderr, "load error:", err)
		os.Exit(2)
	}
	p.ComputeModSets()
	p.ComputeParamRooted()
	p.ComputeReturnsNil()
	p.ComputeExecReach()
	p.ComputeInitOnly()
	p.ComputeAppendOnly()
	p.ComputeExternResults()
	if os.Getenv("PVC_VERBOSE") != "" {
		fmt.Fprintf(os.Stderr, "loaded %d functions in %.1fs\n", len(p.FuncList), time.Since(t0).Seconds())
	}
	return p
}

func cmdList(args []string) {
	fs := flag.NewFlagSet("list", flag.ExitOnError)
	repo := fs.String("repo", "/repo", "repository")
	fs.Parse(args)
	p := mustLoad(*repo)
	for k := range p.boxedTypes {
		fmt.Println("boxed:", k)
	}
	for k := range p.AppendOnly {
		fmt.Println("append-only:", k)
	}
	for k := range p.InitOnly {
		if strings.HasPrefix(k, "MH|") {
			fmt.Println("init-only map type:", k)
		}
	}
	for _, k := range p.allFieldKeys() {
		if !p.InitOnly[k] {
			fmt.Println("mutable-after-construction:", k)
		}
	}
	for _, fn := range p.FuncList {
		why := ""
		for w, n := p.ExecWhy[fn], 0; w != nil && n < 6; w, n = p.ExecWhy[w], n+1 {
			why += " <- " + p.FuncName(w)
		}
		fmt.Printf("%-60s exec=%v mod=%d%s\n", p.FuncName(fn), p.ExecReach[fn], len(p.ModSets[fn]), why)
	}
}

func cmdDump(args []string) {
	fs := flag.NewFlagSet("dump", flag.ExitOnError)
	repo := fs.String("repo", "/repo", "repository")
	fn := fs.String("fn", "", "function name")
	fs.Parse(args)
	p := mustLoad(*repo)
	f := p.Funcs[*fn]
	if f == nil {
		fmt.Fprintln(os.Stderr, "no such function")
		os.Exit(2)
	}
	e := NewEnc(p, f)
	e.Encode()
	fmt.Print(e.sb.String())
	for _, n := range e.notes {
		fmt.Println("; NOTE", n)
	}
}

// encodeAndSolve runs the functions in parallel.
func encodeAndSolve(p *Prog, fns []*ssa.Function, opts SolveOpts, stats *SolveStats) []*Enc {
	// encoding touches shared Prog tables: do it sequentially, solve in parallel
	var encs []*Enc
	for _, f := range fns {
		e := NewEnc(p, f)
		func() {
			defer func() {
				if r := recover(); r != nil {
					e.note("encoder panic: %v", r)
					e.failed = fmt.Sprint(r)
				}
			}()
			e.analyzeCFG()
		}()
		encs = append(encs, e)
	}
	// Encoding touches shared Prog tables (ids, key registry): serialise encoders with a lock,
	// run the solvers in parallel.
	var wg sync.WaitGroup
	sem := make(chan struct{}, runtime.NumCPU())
	for _, e := range encs {
		wg.Add(1)
		go func(e *Enc) {
			defer wg.Done()
			sem <- struct{}{}
			defer func() { <-sem }()
			defer func() {
				if r := recover(); r != nil {
					e.failed = fmt.Sprint(r)
				}
			}()
			t0 := time.Now()
			if len(e.loopList) > 0 {
				e.Houdini(opts)
			} else {
				e.Encode()
			}
			t1 := time.Now()
			SolveFunction(e, opts, stats)
			if os.Getenv("PVC_VERBOSE") != "" && time.Since(t0) > 2*time.Second {
				fmt.Fprintf(os.Stderr, "slow: %s houdini=%.1fs solve=%.1fs obs=%d\n", e.name, t1.Sub(t0).Seconds(), time.Since(t1).Seconds(), len(e.obs))
			}
		}(e)
	}
	wg.Wait()
	return encs
}

func cmdRun(args []string) {
	fs := flag.NewFlagSet("run", flag.ExitOnError)
	repo := fs.String("repo", "/repo", "repository")
	fnre := fs.String("fn", ".", "function name regexp")
	kindre := fs.String("kind", ".", "obligation kind regexp")
	verbose := fs.Bool("v", false, "print every obligation")
	keep := fs.Bool("keep", false, "keep smt files")
	ms := fs.Int("ms", 3000, "primary timeout per obligation")
	fs.Parse(args)
	p := mustLoad(*repo)
	re := regexp.MustCompile(*fnre)
	kre := regexp.MustCompile(*kindre)
	var fns []*ssa.Function
	for _, f := range p.FuncList {
		if re.MatchString(p.FuncName(f)) {
			fns = append(fns, f)
		}
	}
	dir, _ := os.MkdirTemp("", "pvc")
	if !*keep {
		defer os.RemoveAll(dir)
	} else {
		fmt.Println("work dir:", dir)
	}
	stats := &SolveStats{}
	t0 := time.Now()
	encs := encodeAndSolve(p, fns, SolveOpts{WorkDir: dir, PrimaryMs: *ms, SecondaryMs: 2 * *ms, KeepFiles: *keep}, stats)
	total, ok := 0, 0
	byKind := map[string][2]int{}
	for _, e := range encs {
		if e.failed != "" {
			fmt.Printf("ENCODER FAILED %s: %s\n", e.name, e.failed)
		}
		for _, ob := range e.obs {
			if !kre.MatchString(ob.Kind) {
				continue
			}
			total++
			c := byKind[ob.Kind]
			c[0]++
			if ob.Discharged() {
				ok++
				c[1]++
			}
			byKind[ob.Kind] = c
			if *verbose || !ob.Discharged() {
				fmt.Printf("%-8s %-70s %s  [%s] %s\n", ob.Result, ob.Name, ob.Pos, ob.Solver, ob.Src)
				if ob.Model != "" && *verbose {
					fmt.Println("   " + strings.ReplaceAll(ob.Model, "\n", "\n   "))
				}
			}
		}
		if *verbose {
			for _, n := range e.notes {
				fmt.Printf("   note[%s]: %s\n", e.name, n)
			}
		}
	}
	var kinds []string
	for k := range byKind {
		kinds = append(kinds, k)
	}
	sort.Strings(kinds)
	for _, k := range kinds {
		fmt.Printf("  %-16s %4d / %4d\n", k, byKind[k][1], byKind[k][0])
	}
	fmt.Printf("functions=%d obligations=%d discharged=%d  wall=%.1fs solver=%v\n", len(encs), total, ok, time.Since(t0).Seconds(), stats.SolverSec)
}

