package main

import (
	"fmt"
	"go/token"
	"go/types"
	"sort"
	"strings"

	"golang.org/x/tools/go/ssa"
)

// Val is the symbolic value of an SSA value.
type Val struct {
	T     Term
	Tuple []Val
	Addr  *Addr
	Typ   types.Type
}

// Addr is a symbolic address (result of FieldAddr / IndexAddr / Alloc of a promoted local / Global).
type Addr struct {
	Kind   string // field, elem, global, local, cv, sub, wild
	Base   Term   // field: object ref; elem: array ref; cv: cell ref; wild: opaque pointer
	Idx    Term   // elem: index
	Struct types.Type
	Field  int
	Key    string // cv/global key
	Local  *ssa.Alloc
	Outer  *Addr // sub: address of the enclosing struct value
	Elem   types.Type
}

// State is the symbolic store at a program point.
type State struct {
	heap   map[string]Term
	locals map[*ssa.Alloc]Term
	now    Term
}

// results of the latest call per callee are kept as pseudo heap entries "last|<callee>" (merged at joins like the heap)

func (s *State) clone() *State {
	n := &State{heap: make(map[string]Term, len(s.heap)), locals: make(map[*ssa.Alloc]Term, len(s.locals)), now: s.now}
	for k, v := range s.heap {
		n.heap[k] = v
	}
	for k, v := range s.locals {
		n.locals[k] = v
	}
	return n
}

type Obligation struct {
	Name      string   `json:"name"`
	Kind      string   `json:"kind"`
	Detail    string   `json:"detail,omitempty"`
	Func      string   `json:"func"`
	Pos       string   `json:"pos"`
	Props     []string `json:"props,omitempty"`
	Src       string   `json:"src,omitempty"`
	PrefixLen int      `json:"-"`
	Goal      string   `json:"-"`
	Trivial   bool     `json:"trivial,omitempty"`
	Result    string   `json:"result"`
	Solver    string   `json:"solver,omitempty"`
	Millis    int64    `json:"ms"`
	Model     string   `json:"model,omitempty"`
	ModelVars []string `json:"-"`
	enc       *Enc
	cand      *candInv
	candKey   string
	Support   bool   `json:"support,omitempty"`
	// a derived obligation holds if, for one of the alternatives, all its member obligations hold
	AnyOf     [][]*Obligation `json:"-"`
	Derived   bool            `json:"derived,omitempty"`
	ReachS    string `json:"-"`
}

type loopInfo struct {
	header  *ssa.BasicBlock
	index   int
	blocks  map[*ssa.BasicBlock]bool
	backs   []*ssa.BasicBlock
	mod     KeySet
	directMod KeySet // keys written by stores of the loop body itself (not only by callees)
	modLocals map[*ssa.Alloc]bool
	allocs  bool
	// object-precise havoc: keys all of whose writes in the body go to the object one loop-invariant value points to
	rootVal map[string]ssa.Value
	rootBad map[string]bool
	// saved at header for preserve obligations
	headerState *State
	decAtHeader [][]Term
	cands   []*candInv
	// inferred termination measures: candidate -> value at the loop head
	autoVar  []autoVariant
	isRange  bool
}

type autoVariant struct {
	desc   string
	mk     func(e *Enc, bind map[ssa.Value]Val) (Term, bool)
	atHead Term
	obs    []*Obligation
}

type candInv struct {
	desc string
	mk   func(e *Enc, bind map[ssa.Value]Val, st *State) Term
	dead bool
}

type allocRec struct {
	val   ssa.Value // the Alloc, or a call that returns a fresh object (flag returns-fresh)
	instr *ssa.Alloc
	ref   Term
	typ   types.Type // pointee
	block *ssa.BasicBlock
	complete bool // object came complete from a callee (its invariant already holds)
}

// a map made by this function (make(map...)): until it is handed out, callees cannot change it
type mapAllocRec struct {
	val   *ssa.MakeMap
	ref   Term
	key   string // M|K|V|type
	block *ssa.BasicBlock
}

type Enc struct {
	mapAllocs []mapAllocRec
	lastTyp      map[string]types.Type // static type of lastresult(callee)
	lastArgTyp   map[string]types.Type // static type of lastarg(callee, i)
	pendingInv   map[ssa.Value][]string // fields stored in the current run of stores to one object
	propSites    map[string]*propSite  // call sites under a propagates clause
	propOrder    []string
	propHit      map[int]bool
	nameFallback bool
	atHit    map[int]bool // at-clauses of the contract that matched a site
	families []*sliceFamily
	escAt    map[ssa.Instruction][]*sliceFamily
	p    *Prog
	fn   *ssa.Function
	name string
	fc   *FuncContract
	sb   strings.Builder
	decl map[string]bool
	n    int

	vals     map[ssa.Value]Val
	reach    map[*ssa.BasicBlock]Term
	exit     map[*ssa.BasicBlock]*State
	edgeCond map[[2]int]Term // (pred index, succ slot)
	cur      *State
	curReach Term
	curBlock *ssa.BasicBlock
	entry    *State
	now0     Term
	heap0    map[string]Term

	obs      []*Obligation
	ordinals map[string]int
	loops    map[*ssa.BasicBlock]*loopInfo
	loopList []*loopInfo
	inLoops  map[*ssa.BasicBlock][]*loopInfo
	rpo      []*ssa.BasicBlock

	notes    []string // unsupported / abstraction notes (audit)
	strlits  map[string]Term
	strlitOrder []Term
	defers   []ssa.CallInstruction
	allocs   []allocRec
	names    map[string][]ssa.Value // source names from DebugRef
	nameAt   map[string]map[ssa.Value]ssa.Instruction // where the variable is first seen holding the value
	curInstr ssa.Instruction
	rets     []retRec
	specDecl map[string]bool
	boxDecl  map[string]bool
	knownTypeIDs map[int]types.Type
	implDecl map[string]bool
	reachBlocks map[*ssa.BasicBlock]map[*ssa.BasicBlock]bool

	opts EncOpts
	invObjs []invObj
	failed string
	lockCount int
	usesLocks bool
	unbalancedCallee bool
	directStores map[string]bool
	pureDepth   int
	atCount     map[string]int
	inlineDepth int
	inlineSeq   int
	inlineUsed  int
	prefix      string
	killedCands map[string]bool
	skipObligations bool
}

type retRec struct {
	block *ssa.BasicBlock
	reach Term
	vals  []Val
	state *State
}

type EncOpts struct {
	Houdini bool
}

func NewEnc(p *Prog, fn *ssa.Function) *Enc {
	e := &Enc{p: p, fn: fn, name: p.FuncName(fn)}
	e.fc = p.Contracts.Funcs[e.name]
	if e.fc != nil && e.fc.Kind != "func" {
		e.fc = nil
	}
	e.reset()
	return e
}

func (e *Enc) reset() {
	e.atHit = map[int]bool{}
	e.propHit = map[int]bool{}
	e.propSites = nil
	e.pendingInv = nil
	e.propOrder = nil
	e.sb.Reset()
	e.decl = map[string]bool{}
	e.n = 0
	e.vals = map[ssa.Value]Val{}
	e.reach = map[*ssa.BasicBlock]Term{}
	e.exit = map[*ssa.BasicBlock]*State{}
	e.edgeCond = map[[2]int]Term{}
	e.heap0 = map[string]Term{}
	e.obs = nil
	e.ordinals = map[string]int{}
	e.notes = nil
	e.strlits = map[string]Term{}
	e.strlitOrder = nil
	e.defers = nil
	e.allocs = nil
	e.mapAllocs = nil
	e.rets = nil
	e.specDecl = map[string]bool{}
	e.boxDecl = map[string]bool{}
	e.knownTypeIDs = map[int]types.Type{}
	e.implDecl = map[string]bool{}
	e.invObjs = nil
	e.atCount = map[string]int{}
	e.directStores = map[string]bool{}
	e.lockCount = 0
	e.inlineDepth, e.inlineSeq, e.inlineUsed, e.prefix = 0, 0, 0, ""
}

func (e *Enc) note(format string, args ...any) {
	s := fmt.Sprintf(format, args...)
	for _, n := range e.notes {
		if n == s {
			return
		}
	}
	e.notes = append(e.notes, s)
}

// ---------- script emission ----------

func (e *Enc) emit(s string) { e.sb.WriteString(s); e.sb.WriteString("\n") }

func (e *Enc) declare(name string, sort Sort) Term {
	if !e.decl[name] {
		e.decl[name] = true
		e.needSort(sort)
		e.emit(fmt.Sprintf("(declare-const %s %s)", name, sort))
	}
	return mk(sort, name)
}

func (e *Enc) declareFun(name string, args []Sort, res Sort) {
	if e.decl["fun:"+name] {
		return
	}
	e.decl["fun:"+name] = true
	var as []string
	for _, a := range args {
		e.needSort(a)
		as = append(as, string(a))
	}
	e.needSort(res)
	e.emit(fmt.Sprintf("(declare-fun %s (%s) %s)", name, strings.Join(as, " "), res))
}

func (e *Enc) fresh(prefix string, sort Sort) Term {
	e.n++
	return e.declare(fmt.Sprintf("%s_%d", sanitize(prefix), e.n), sort)
}

func (e *Enc) assert(t Term) {
	if t.S == "true" {
		return
	}
	e.emit("(assert " + t.S + ")")
}

func (e *Enc) assume(t Term) { e.assert(Implies(e.curReach, t)) }

// define introduces a named constant equal to t (keeps terms small).
func (e *Enc) define(prefix string, t Term) Term {
	if len(t.S) < 24 && !strings.Contains(t.S, " ") {
		return t
	}
	c := e.fresh(prefix, t.Sort)
	e.assert(Eq(c, t))
	return c
}

// needSort makes sure datatype / uninterpreted sorts are declared.
func (e *Enc) needSort(s Sort) {
	str := string(s)
	if strings.HasPrefix(str, "(Array ") {
		e.needSort(arrayIdxSort(s))
		e.needSort(arrayElemSort(s))
		return
	}
	if strings.HasPrefix(str, "X_") {
		if !e.decl["sort:"+str] {
			e.decl["sort:"+str] = true
			e.emit(fmt.Sprintf("(declare-sort %s 0)", str))
		}
		return
	}
	if strings.HasPrefix(str, "S_") {
		if e.decl["sort:"+str] {
			return
		}
		e.decl["sort:"+str] = true
		e.p.mu.Lock()
		t := e.p.structBySort[str]
		e.p.mu.Unlock()
		if t == nil {
			e.emit(fmt.Sprintf("(declare-sort %s 0)", str))
			return
		}
		st := t.Underlying().(*types.Struct)
		var fs []string
		for i := 0; i < st.NumFields(); i++ {
			fsrt := e.p.SortOf(st.Field(i).Type())
			e.needSort(fsrt)
			fs = append(fs, fmt.Sprintf("(%s_%s %s)", str, sanitize(st.Field(i).Name()), fsrt))
		}
		if len(fs) == 0 {
			e.emit(fmt.Sprintf("(declare-datatypes ((%s 0)) (((mk_%s))))", str, str))
		} else {
			e.emit(fmt.Sprintf("(declare-datatypes ((%s 0)) (((mk_%s %s))))", str, str, strings.Join(fs, " ")))
		}
	}
}

func (e *Enc) sortOf(t types.Type) Sort {
	s := e.p.SortOf(t)
	if strings.HasPrefix(string(s), "S_") {
		e.p.mu.Lock()
		if e.p.structBySort == nil {
			e.p.structBySort = map[string]types.Type{}
		}
		if _, ok := e.p.structBySort[string(s)]; !ok {
			e.p.structBySort[string(s)] = t
		}
		e.p.mu.Unlock()
	}
	e.needSort(s)
	return s
}

// ---------- heap access ----------

func (e *Enc) keySort(key string) Sort {
	parts := strings.Split(key, "|")
	switch parts[0] {
	case "F":
		ft := e.p.fieldTypeByKey(key)
		if ft == nil {
			panic("unknown field key " + key)
		}
		return ArraySort(SInt, e.sortOf(ft))
	case "E":
		return ArraySort(SInt, ArraySort(SInt, Sort(parts[1])))
	case "C":
		return ArraySort(SInt, Sort(parts[1]))
	case "CV":
		return ArraySort(SInt, Sort(parts[3]))
	case "MH":
		return ArraySort(SInt, ArraySort(Sort(parts[1]), SBool))
	case "MV":
		return ArraySort(SInt, ArraySort(Sort(parts[1]), Sort(parts[2])))
	case "G":
		g := e.p.SSAPkg.Members[parts[1]]
		if gl, ok := g.(*ssa.Global); ok {
			return e.sortOf(derefType(gl.Type()))
		}
		e.p.mu.Lock()
		gl := e.p.externGlobals[parts[1]]
		e.p.mu.Unlock()
		if gl != nil {
			return e.sortOf(derefType(gl.Type()))
		}
		panic("unknown global " + key)
	case "last":
		return Sort(parts[2])
	case "gh":
		gv := e.p.Contracts.Ghosts[parts[1]]
		if gv == nil {
			panic("unknown ghost " + key)
		}
		return e.ghostSort(gv.Type)
	}
	panic("bad heap key " + key)
}

func (e *Enc) ghostSort(typ string) Sort {
	typ = strings.TrimSpace(typ)
	if strings.HasPrefix(typ, "map[") {
		// map[K]V -> (Array K V)
		depth := 0
		for i := 3; i < len(typ); i++ {
			if typ[i] == '[' {
				depth++
			} else if typ[i] == ']' {
				depth--
				if depth == 0 {
					k := e.ghostSort(typ[4:i])
					v := e.ghostSort(typ[i+1:])
					return ArraySort(k, v)
				}
			}
		}
	}
	t, err := e.p.LookupType(typ)
	if err != nil {
		panic(fmt.Sprintf("ghost type %q: %v", typ, err))
	}
	return e.sortOf(t)
}

// mapKeys expands a map key "M|K|V" into its two arrays.
func mapHasKey(mk string) string { return "MH" + mk[1:] }
func mapValKey(mk string) string { return "MV" + mk[1:] }

func (e *Enc) heapGet(st *State, key string) Term {
	if t, ok := st.heap[key]; ok {
		return t
	}
	if t, ok := e.heap0[key]; ok {
		return t
	}
	if strings.HasPrefix(key, "lasttaf|") {
		parts := strings.Split(key, "|")
		srt := SInt
		if t, err := e.p.LookupType(parts[1]); err == nil {
			if pt, ok := t.Underlying().(*types.Pointer); ok {
				if st, ok := pt.Elem().Underlying().(*types.Struct); ok {
					for i := 0; i < st.NumFields(); i++ {
						if st.Field(i).Name() == parts[2] {
							srt = e.sortOf(st.Field(i).Type())
						}
					}
				}
			}
		}
		c := e.fresh("lasttaf0", srt)
		e.heap0[key] = c
		return c
	}
	if strings.HasPrefix(key, "lastta|") {
		c := e.fresh("lastta0", SInt)
		e.heap0[key] = c
		return c
	}
	if strings.HasPrefix(key, "errp|") {
		e.heap0[key] = False // no call has failed at entry
		return False
	}
	if strings.HasPrefix(key, "ent|") {
		e.heap0[key] = False // no loop head has been reached at entry
		return False
	}
	srt := e.keySort(key)
	e.needSort(srt)
	c := e.declare("H0_"+sanitize(key), srt)
	e.heap0[key] = c
	e.entryHeapOld(key, c)
	return c
}

func (e *Enc) heapSet(st *State, key string, t Term) {
	e.heapGet(st, key) // make sure entry version exists
	st.heap[key] = t
}

// havocKey replaces the current version of key by a fresh one.
func (e *Enc) havocKey(st *State, key string) (old, nw Term) {
	old = e.heapGet(st, key)
	nw = e.fresh("H_"+sanitize(key), old.Sort)
	st.heap[key] = nw
	return
}

// expandKeys turns a KeySet with wildcards into concrete keys known to this function / package.
func (e *Enc) expandKeys(ks KeySet) []string {
	out := KeySet{}
	all := func() []string {
		u := KeySet{}
		for _, k := range e.p.allFieldKeys() {
			u.Add(k)
		}
		for k := range e.heap0 {
			u.Add(k)
		}
		e.p.mu.Lock()
		for k := range e.p.allKeys {
			u.Add(k)
		}
		e.p.mu.Unlock()
		return u.Sorted()
	}
	for k := range ks {
		switch {
		case k == "*":
			for _, a := range all() {
				if !strings.HasPrefix(a, "gh|") {
					out.Add(a)
				}
			}
		case strings.HasPrefix(k, "W|"):
			srt := Sort(k[2:])
			for _, a := range all() {
				if strings.HasPrefix(a, "M") || strings.HasPrefix(a, "G|") || strings.HasPrefix(a, "gh|") {
					continue
				}
				if e.p.keyValueSort(a) == srt {
					out.Add(a)
				}
			}
			out.Add("C|" + string(srt))
		case strings.HasPrefix(k, "M|"):
			out.Add(mapHasKey(k))
			out.Add(mapValKey(k))
		default:
			out.Add(k)
		}
	}
	return out.Sorted()
}

// ---------- struct values ----------

func (e *Enc) structSel(sv Term, t types.Type, i int) Term {
	name, local, st := e.p.structSortName(t)
	ft := st.Field(i).Type()
	if !local {
		fn := fmt.Sprintf("%s_get_%s", name, sanitize(st.Field(i).Name()))
		e.declareFun(fn, []Sort{sv.Sort}, e.sortOf(ft))
		return App(e.sortOf(ft), fn, sv)
	}
	return App(e.sortOf(ft), fmt.Sprintf("%s_%s", name, sanitize(st.Field(i).Name())), sv)
}

func (e *Enc) structMk(t types.Type, fields []Term) Term {
	name, local, _ := e.p.structSortName(t)
	srt := e.sortOf(t)
	if !local {
		return e.fresh("xs", srt)
	}
	return App(srt, "mk_"+name, fields...)
}

func (e *Enc) structUpd(sv Term, t types.Type, i int, v Term) Term {
	_, local, st := e.p.structSortName(t)
	if !local {
		return e.fresh("xs", sv.Sort)
	}
	var fs []Term
	for j := 0; j < st.NumFields(); j++ {
		if j == i {
			fs = append(fs, v)
		} else {
			fs = append(fs, e.structSel(sv, t, j))
		}
	}
	return e.structMk(t, fs)
}

// zero value of a type
func (e *Enc) zero(t types.Type) Term {
	switch u := t.Underlying().(type) {
	case *types.Basic:
		switch {
		case u.Info()&types.IsBoolean != 0:
			return False
		case u.Info()&types.IsInteger != 0:
			return IntLit(0)
		case u.Info()&types.IsFloat != 0:
			return mk(SF64, "(_ +zero 11 53)")
		case u.Info()&types.IsString != 0:
			return mk(SStr, "str_empty")
		}
		return IntLit(0)
	case *types.Slice:
		return NilSlice
	case *types.Struct:
		_, local, _ := e.p.structSortName(t)
		if !local {
			srt := e.sortOf(t)
			z := e.declare("zero_"+string(srt), srt)
			// the zero reflect.Value is the invalid one (library fact)
			if srt == "X_reflect_Value" && !e.decl["zerorv"] {
				e.decl["zerorv"] = true
				e.declareFun("pure_RVKind", []Sort{srt}, SInt)
				e.assert(Eq(App(SInt, "pure_RVKind", z), IntLit(0)))
			}
			return z
		}
		var fs []Term
		for i := 0; i < u.NumFields(); i++ {
			fs = append(fs, e.zero(u.Field(i).Type()))
		}
		return e.structMk(t, fs)
	case *types.Array:
		srt := e.sortOf(t)
		return e.declare("zero_"+string(srt), srt)
	}
	return IntLit(0)
}

// typeInv: facts that hold of every value of a type (ranges, lengths, birth before now).
func (e *Enc) typeInv(v Term, t types.Type, now Term) Term {
	switch u := t.Underlying().(type) {
	case *types.Basic:
		if lo, hi, ok := intRange(t); ok {
			return And(Le(BigLit(lo), v), Le(v, BigLit(hi)))
		}
		if u.Info()&types.IsString != 0 {
			return And(Ge(StrLen(v), IntLit(0)), Le(StrLen(v), BigLit(maxLenStr)))
		}
	case *types.Slice:
		return And(Ge(SliceLen(v), IntLit(0)), Ge(SliceCap(v), SliceLen(v)), Ge(SliceOff(v), IntLit(0)), Le(SliceCap(v), BigLit(maxLenStr)),
			Lt(Birth(SliceArr(v)), now),
			Implies(Eq(SliceArr(v), IntLit(0)), Eq(SliceCap(v), IntLit(0))))
	case *types.Pointer:
		// objects of different struct types are different objects
		if _, isStruct := u.Elem().Underlying().(*types.Struct); isStruct {
			return And(Lt(Birth(v), now), Or(Eq(v, IntLit(0)), And(Ge(Birth(v), IntLit(0)), Eq(App(SInt, "tyof", v), IntLit(int64(e.p.TypeID(u.Elem())))))))
		}
		return Lt(Birth(v), now)
	case *types.Map, *types.Chan, *types.Signature, *types.Interface:
		return Lt(Birth(v), now)
	}
	return True
}

// ---------- obligations ----------

// oblige names an obligation by function, kind, detail and a hash of the source line it comes from
// (plus an ordinal among equal ones), so that edits elsewhere in the function do not rename it.
func (e *Enc) oblige(kind, detail string, pos token.Pos, goal Term, props []string, src string) *Obligation {
	lh := e.p.lineHash(pos)
	key := kind + "/" + detail + "@" + lh
	ord := e.ordinals[key]
	e.ordinals[key] = ord + 1
	name := e.name + "/" + kind
	if detail != "" {
		name += "/" + detail
	}
	name += "@" + lh
	if ord > 0 {
		name += "#" + itoa(ord)
	}
	return e.obligeNamed(name, kind, detail, pos, goal, props, src)
}

func (e *Enc) obligeNamed(name, kind, detail string, pos token.Pos, goal Term, props []string, src string) *Obligation {
	ob := &Obligation{Name: name, Kind: kind, Detail: detail, Func: e.name, Pos: e.p.Pos(pos), Props: props, Src: src, enc: e}
	if e.skipObligations {
		switch kind {
		case "frame", "effect", "lock", "guard", "post", "typeinv", "typeinv-new", "cand", "monotone", "writers", "at", "sink", "callers", "flows", "opaque", "contract-applies", "propagates":
		default:
			e.assume(goal)
		}
		return ob
	}
	ob.PrefixLen = e.sb.Len()
	ob.ReachS = e.curReach.S
	neg := And(e.curReach, Not(goal))
	ob.Goal = "(assert " + neg.S + ")"
	if goal.S == "true" || e.curReach.S == "false" {
		ob.Trivial = true
	}
	e.emit("(push 1)")
	e.emit(ob.Goal)
	e.emit("(check-sat)")
	e.emit("(pop 1)")
	// subsequent code may rely on safety facts (index in range, divisor non-zero, asserted type, callee
	// preconditions, invariants); pure proof goals (frames, effects, locks, postconditions) are not assumed,
	// so that one failing goal does not make the goals after it vacuous.
	switch kind {
	case "frame", "effect", "lock", "guard", "post", "typeinv", "typeinv-new", "cand", "monotone", "writers", "at", "sink", "callers", "flows", "opaque", "contract-applies", "pure", "variant-cand", "preserved", "propagates":
	default:
		e.assume(goal)
	}
	e.obs = append(e.obs, ob)
	return ob
}

// ---------- CFG analysis ----------

func (e *Enc) analyzeCFG() {
	fn := e.fn
	e.loops = map[*ssa.BasicBlock]*loopInfo{}
	e.loopList = nil
	e.inLoops = map[*ssa.BasicBlock][]*loopInfo{}
	// reachable blocks
	seen := map[*ssa.BasicBlock]bool{}
	var order []*ssa.BasicBlock
	var dfs func(b *ssa.BasicBlock)
	isBack := func(p, s *ssa.BasicBlock) bool { return s.Dominates(p) }
	dfs = func(b *ssa.BasicBlock) {
		seen[b] = true
		for _, s := range b.Succs {
			if !seen[s] && !isBack(b, s) {
				dfs(s)
			}
		}
		order = append(order, b)
	}
	dfs(fn.Blocks[0])
	// forward-edge DFS postorder reversed = topological order of the DAG without back edges,
	// but a block reachable only through other paths needs all forward preds first; postorder-reverse of DFS guarantees it for DAGs.
	for i, j := 0, len(order)-1; i < j; i, j = i+1, j-1 {
		order[i], order[j] = order[j], order[i]
	}
	e.rpo = order
	// loops
	for _, b := range order {
		for _, s := range b.Succs {
			if isBack(b, s) {
				li := e.loops[s]
				if li == nil {
					li = &loopInfo{header: s, blocks: map[*ssa.BasicBlock]bool{s: true}, mod: KeySet{}, directMod: KeySet{}, modLocals: map[*ssa.Alloc]bool{}}
					e.loops[s] = li
				}
				li.backs = append(li.backs, b)
				// natural loop body
				var stack []*ssa.BasicBlock
				if !li.blocks[b] {
					li.blocks[b] = true
					stack = append(stack, b)
				}
				for len(stack) > 0 {
					x := stack[len(stack)-1]
					stack = stack[:len(stack)-1]
					for _, pr := range x.Preds {
						if !li.blocks[pr] && seen[pr] {
							li.blocks[pr] = true
							stack = append(stack, pr)
						}
					}
				}
			}
		}
	}
	var headers []*ssa.BasicBlock
	for h := range e.loops {
		headers = append(headers, h)
	}
	sort.Slice(headers, func(i, j int) bool { return headers[i].Index < headers[j].Index })
	for i, h := range headers {
		li := e.loops[h]
		li.index = i
		e.loopList = append(e.loopList, li)
		for b := range li.blocks {
			e.inLoops[b] = append(e.inLoops[b], li)
			for _, in := range b.Instrs {
				e.instrMod(in, li)
			}
		}
	}
	// block reachability (including back edges) for escape analysis
	e.reachBlocks = map[*ssa.BasicBlock]map[*ssa.BasicBlock]bool{}
	for _, b := range order {
		r := map[*ssa.BasicBlock]bool{}
		var st []*ssa.BasicBlock
		for _, s := range b.Succs {
			st = append(st, s)
		}
		for len(st) > 0 {
			x := st[len(st)-1]
			st = st[:len(st)-1]
			if r[x] {
				continue
			}
			r[x] = true
			st = append(st, x.Succs...)
		}
		e.reachBlocks[b] = r
	}
}

// instrMod records what a loop body instruction may modify.
func (e *Enc) instrMod(in ssa.Instruction, li *loopInfo) {
	switch x := in.(type) {
	case *ssa.Store:
		if a, ok := x.Addr.(*ssa.Alloc); ok && e.p.promotable(a) {
			li.modLocals[a] = true
			return
		}
		for _, k := range e.p.storeKeys(x.Addr) {
			li.mod.Add(k)
			li.directMod.Add(k)
			if fa, ok := x.Addr.(*ssa.FieldAddr); ok {
				li.noteRoot(k, fa.X)
			} else {
				li.noteRoot(k, nil)
			}
		}
	case *ssa.MapUpdate:
		li.mod.Add(e.p.mapKey(x.Map.Type().Underlying().(*types.Map)))
	case *ssa.Alloc, *ssa.MakeMap, *ssa.MakeSlice, *ssa.MakeClosure, *ssa.MakeInterface:
		li.allocs = true
	case *ssa.Next:
		if r, ok := x.Iter.(*ssa.Range); ok {
			if _, isMap := r.X.Type().Underlying().(*types.Map); isMap {
				li.mod.Add(e.seenKey(r))
			}
		}
	case ssa.CallInstruction:
		li.allocs = true
		cm := e.callMod(x.Common())
		li.mod.AddAll(cm)
		c := x.Common()
		_, kind, fn := e.calleeName(c)
		fc := e.calleeContract(c)
		static := kind == "func" && fn != nil && !c.IsInvoke() && len(c.Args) == len(fn.Params) && (fc == nil || !fc.HasAssigns)
		if _, isClosure := c.Value.(*ssa.MakeClosure); isClosure {
			static = false
		}
		for k := range cm {
			if static {
				if j, ok := e.p.paramRooted(fn, k); ok && j < len(c.Args) {
					li.noteRoot(k, c.Args[j])
					continue
				}
			}
			li.noteRoot(k, nil)
		}
	}
}

// noteRoot: a write to key in the loop body goes to the object v points to (nil: unknown object).
func (li *loopInfo) noteRoot(key string, v ssa.Value) {
	if li.rootVal == nil {
		li.rootVal = map[string]ssa.Value{}
		li.rootBad = map[string]bool{}
	}
	if v == nil {
		li.rootBad[key] = true
		return
	}
	if in, ok := v.(ssa.Instruction); ok && in.Block() != nil && li.blocks[in.Block()] {
		li.rootBad[key] = true // computed inside the loop: may differ between iterations
		return
	}
	if old, ok := li.rootVal[key]; ok && old != v {
		li.rootBad[key] = true
		return
	}
	li.rootVal[key] = v
}

// loopRoot: the one object whose field `key` the loop body may write, if there is exactly one.
func (li *loopInfo) loopRoot(key string) (ssa.Value, bool) {
	if li.rootVal == nil || li.rootBad[key] {
		return nil, false
	}
	v, ok := li.rootVal[key]
	return v, ok
}

// callMod: heap keys a call may modify (contract assigns or inferred write set).
func (e *Enc) callMod(c *ssa.CallCommon) KeySet {
	tmp := &modInfo{direct: KeySet{}, callees: map[*ssa.Function]bool{}, owner: e.fn}
	if fc := e.calleeContract(c); fc != nil && fc.HasAssigns {
		ks := KeySet{}
		_, _, cfn := e.calleeName(c)
		for _, a := range fc.Assigns {
			for _, k := range e.assignKeysTyped(fc, cfn, a) {
				ks.Add(k)
			}
		}
		return ks
	}
	e.p.modCall(tmp, c)
	ks := KeySet{}
	ks.AddAll(tmp.direct)
	for f := range tmp.callees {
		ks.AddAll(e.p.ModSets[f])
	}
	// dynamic / interface / reflective: resolve like ComputeModSets
	ks.AddAll(e.p.resolveDyn(tmp))
	return ks
}

// ---------- main driver ----------

func (e *Enc) Encode() {
	e.reset()
	e.emit(Prelude)
	e.emit("; function " + e.name)
	e.analyzeCFG()
	e.collectNames()
	e.computeSliceFamilies()
	if e.opts.Houdini {
		e.genCandidates()
	}
	fn := e.fn

	// entry state
	e.now0 = e.declare("now0", SInt)
	e.assert(Ge(e.now0, IntLit(0)))
	st := &State{heap: map[string]Term{}, locals: map[*ssa.Alloc]Term{}, now: e.now0}
	e.cur = st
	e.curReach = True
	for i, pr := range fn.Params {
		v := e.declare("p_"+sanitize(pr.Name()), e.sortOf(pr.Type()))
		e.vals[pr] = Val{T: v, Typ: pr.Type()}
		e.assert(e.typeInv(v, pr.Type(), e.now0))
		// nil dereference is excluded as a class (DESIGN 3.4-1); the same goes for invoking a
		// pointer-receiver method on nil
		if i == 0 && fn.Signature.Recv() != nil {
			if _, isPtr := pr.Type().Underlying().(*types.Pointer); isPtr {
				e.assert(Ne(v, IntLit(0)))
			}
		}
	}
	for _, fv := range fn.FreeVars {
		v := e.declare("fv_"+sanitize(fv.Name()), e.sortOf(fv.Type()))
		e.vals[fv] = Val{T: v, Typ: fv.Type()}
		e.assert(e.typeInv(v, fv.Type(), e.now0))
		// a captured variable is a cell of the enclosing function
		if b := e.p.resolveFreeVarDeep(fv); b != nil {
			if al, ok := b.(*ssa.Alloc); ok {
				if k := e.p.cvKeyMaybe(al); k != "" {
					e.registerKey(k)
					e.vals[fv] = Val{T: v, Typ: fv.Type(), Addr: &Addr{Kind: "cv", Base: v, Key: k, Elem: derefType(fv.Type())}}
				}
			}
		}
	}
	e.entry = st.clone()
	e.emitAxioms()
	e.assumeEntry()

	for _, b := range e.rpo {
		e.encodeBlock(b)
	}
	e.encodeExit()
	e.terminationObligations()
}

func (e *Enc) collectNames() { e.collectNamesImpl() }

func (e *Enc) succSlot(p, s *ssa.BasicBlock) []int {
	var out []int
	for i, x := range p.Succs {
		if x == s {
			out = append(out, i)
		}
	}
	return out
}

func (e *Enc) edge(p, s *ssa.BasicBlock) Term {
	var cs []Term
	for _, slot := range e.succSlot(p, s) {
		if c, ok := e.edgeCond[[2]int{p.Index, slot}]; ok {
			cs = append(cs, c)
		}
	}
	return Or(cs...)
}

func (e *Enc) encodeBlock(b *ssa.BasicBlock) {
	e.curBlock = b
	li := e.loops[b]
	// forward predecessors
	var preds []*ssa.BasicBlock
	for _, p := range b.Preds {
		if _, done := e.exit[p]; done && !b.Dominates(p) {
			preds = append(preds, p)
		}
	}
	if b.Index == 0 && len(preds) == 0 {
		// entry
	} else {
		var edges []Term
		var states []*State
		for _, p := range preds {
			edges = append(edges, e.edge(p, b))
			states = append(states, e.exit[p])
		}
		r := e.declare(fmt.Sprintf("R_%s%d", e.prefix, b.Index), SBool)
		e.assert(Eq(r, Or(edges...)))
		e.curReach = r
		e.cur = e.mergeStates(b, edges, states)
	}
	e.emit(fmt.Sprintf("; block %d %s", b.Index, b.Comment))
	e.reach[b] = e.curReach

	if li != nil {
		e.loopHeader(b, li, preds)
	} else {
		// phis
		for _, in := range b.Instrs {
			phi, ok := in.(*ssa.Phi)
			if !ok {
				break
			}
			e.encodePhi(phi, b)
		}
	}
	for _, in := range b.Instrs {
		if _, ok := in.(*ssa.Phi); ok {
			continue
		}
		e.curInstr = in
		e.encodeInstr(in)
	}
	e.curInstr = nil
	e.exit[b] = e.cur
}

func (e *Enc) mergeStates(b *ssa.BasicBlock, edges []Term, states []*State) *State {
	if len(states) == 1 {
		return states[0].clone()
	}
	out := &State{heap: map[string]Term{}, locals: map[*ssa.Alloc]Term{}}
	keys := KeySet{}
	for _, s := range states {
		for k := range s.heap {
			keys.Add(k)
		}
	}
	for _, k := range keys.Sorted() {
		first := e.heapGet(states[0], k)
		same := true
		for _, s := range states[1:] {
			if e.heapGet(s, k).S != first.S {
				same = false
			}
		}
		if same {
			out.heap[k] = first
			continue
		}
		c := e.fresh(fmt.Sprintf("H_%s_b%d", sanitize(k), b.Index), first.Sort)
		for i, s := range states {
			e.assert(Implies(edges[i], Eq(c, e.heapGet(s, k))))
		}
		out.heap[k] = c
	}
	locs := map[*ssa.Alloc]bool{}
	for _, s := range states {
		for a := range s.locals {
			locs[a] = true
		}
	}
	var locList []*ssa.Alloc
	for a := range locs {
		locList = append(locList, a)
	}
	sort.Slice(locList, func(i, j int) bool { return locList[i].Pos() < locList[j].Pos() || (locList[i].Pos() == locList[j].Pos() && locList[i].Name() < locList[j].Name()) })
	for _, a := range locList {
		var ts []Term
		all := true
		for _, s := range states {
			t, ok := s.locals[a]
			if !ok {
				all = false
				break
			}
			ts = append(ts, t)
		}
		if !all {
			continue // not initialised on some path: leave unknown (load will havoc)
		}
		same := true
		for _, t := range ts[1:] {
			if t.S != ts[0].S {
				same = false
			}
		}
		if same {
			out.locals[a] = ts[0]
			continue
		}
		c := e.fresh(fmt.Sprintf("L_%s_b%d", sanitize(a.Comment), b.Index), ts[0].Sort)
		for i := range states {
			e.assert(Implies(edges[i], Eq(c, ts[i])))
		}
		out.locals[a] = c
	}
	// now
	same := true
	for _, s := range states[1:] {
		if s.now.S != states[0].now.S {
			same = false
		}
	}
	if same {
		out.now = states[0].now
	} else {
		c := e.fresh(fmt.Sprintf("now_b%d", b.Index), SInt)
		for i, s := range states {
			e.assert(Implies(edges[i], Eq(c, s.now)))
		}
		out.now = c
	}
	return out
}

func (e *Enc) encodePhi(phi *ssa.Phi, b *ssa.BasicBlock) {
	srt := e.sortOf(phi.Type())
	c := e.declare(e.valName(phi), srt)
	for i, p := range b.Preds {
		if _, done := e.exit[p]; !done || b.Dominates(p) {
			continue
		}
		v := e.termOf(phi.Edges[i])
		e.assert(Implies(e.edge(p, b), Eq(c, v)))
	}
	e.vals[phi] = Val{T: c, Typ: phi.Type()}
}

func (e *Enc) valName(v ssa.Value) string {
	n := v.Name()
	if phi, ok := v.(*ssa.Phi); ok && phi.Comment != "" {
		n += "_" + phi.Comment
	}
	return "v_" + e.prefix + sanitize(n)
}

// ---------- exit / postconditions ----------

// coverEnd: vacuity guard emitted for every function: all facts assumed on the way to the
// function's exit must be jointly satisfiable (an inconsistent assumption would prove anything).
func (e *Enc) coverEnd(reach Term) {
	ob := &Obligation{Name: e.name + "/cover/consistent", Kind: "cover", Func: e.name, Pos: e.p.Pos(e.fn.Pos()), enc: e, Src: "assumptions up to the function's exit are satisfiable"}
	ob.PrefixLen = e.sb.Len()
	ob.ReachS = "true"
	ob.Goal = "(assert " + reach.S + ")"
	e.emit("(push 1)")
	e.emit(ob.Goal)
	e.emit("(check-sat)")
	e.emit("(pop 1)")
	e.obs = append(e.obs, ob)
}

func (e *Enc) encodeExit() {
	// an at-clause that matched no call, append, map update or store pins nothing: the site it was
	// written for is gone
	if e.fc != nil {
		for i, at := range e.fc.At {
			if !e.atHit[i] {
				e.contractError(e.name, at.Clause, fmt.Errorf("at %s matches no site in the function", at.Callee), e.fn.Pos())
			}
		}
	}
	if len(e.rets) == 0 {
		e.coverEnd(True)
		return
	}
	defer func() { e.coverEnd(e.curReach) }()
	var edges []Term
	var states []*State
	for _, r := range e.rets {
		edges = append(edges, r.reach)
		states = append(states, r.state)
	}
	rx := e.declare("R_exit", SBool)
	e.assert(Eq(rx, Or(edges...)))
	e.curReach = rx
	e.curBlock = nil
	exitBlock := &ssa.BasicBlock{Index: 9999}
	e.cur = e.mergeStates(exitBlock, edges, states)
	e.checkPost(e.rets)
}

// entryHeapOld: every reference stored in the heap at function entry was born before the function started.
func (e *Enc) entryHeapOld(key string, c Term) {
	if e.now0.S == "" {
		return
	}
	parts := strings.Split(key, "|")
	old := func(t string, sort Sort) string {
		switch sort {
		case SInt:
			return fmt.Sprintf("(< (birth %s) %s)", t, e.now0.S)
		case SSlice:
			return fmt.Sprintf("(< (birth (s_arr %s)) %s)", t, e.now0.S)
		}
		return ""
	}
	isRef := func(t types.Type) bool {
		if t == nil {
			return false
		}
		if isPointerLike(t) {
			return true
		}
		_, ok := t.Underlying().(*types.Slice)
		return ok
	}
	switch parts[0] {
	case "F":
		ft := e.p.fieldTypeByKey(key)
		if !isRef(ft) {
			return
		}
		if b := old(fmt.Sprintf("(select %s qo)", c.S), e.p.SortOf(ft)); b != "" {
			// (only for objects that existed at entry: the field arrays are not havocked for objects a callee allocates)
			e.assert(mk(SBool, fmt.Sprintf("(forall ((qo Int)) (! (=> (< (birth qo) %s) %s) :pattern ((select %s qo))))", e.now0.S, b, c.S)))
		}
	case "G":
		g, _ := e.p.SSAPkg.Members[parts[1]].(*ssa.Global)
		if g == nil || !isRef(derefType(g.Type())) {
			return
		}
		if b := old(c.S, e.p.SortOf(derefType(g.Type()))); b != "" {
			e.assert(mk(SBool, b))
		}
	case "MV":
		if len(parts) < 3 || Sort(parts[2]) != SInt {
			return
		}
		// only maps whose element type is a reference: the key carries the Go type, Int-sorted non-reference elements (ints) also satisfy birth(x) < now0 harmlessly? no: skip ints
		if len(parts) >= 4 && (strings.HasSuffix(parts[3], "Rint") || strings.HasSuffix(parts[3], "Rbool")) {
			return
		}
		e.assert(mk(SBool, fmt.Sprintf("(forall ((qm Int) (qk %s)) (! (=> (< (birth qm) %s) (< (birth (select (select %s qm) qk)) %s)) :pattern ((select (select %s qm) qk))))", parts[1], e.now0.S, c.S, e.now0.S, c.S)))
	case "E":
		if len(parts) < 3 || Sort(parts[1]) != SInt {
			return
		}
		switch parts[2] {
		case "int", "rune", "byte", "int32", "int64", "uint8", "uint", "uint32", "uint64", "int8", "int16", "uint16", "TokenType":
			return
		}
		e.assert(mk(SBool, fmt.Sprintf("(forall ((qa Int) (qi Int)) (! (=> (< (birth qa) %s) (< (birth (select (select %s qa) qi)) %s)) :pattern ((select (select %s qa) qi))))", e.now0.S, c.S, e.now0.S, c.S)))
	case "CV":
		if len(parts) >= 4 && Sort(parts[3]) == SInt {
			// cells hold whatever type: only assert for pointer-like cells is not decidable from the key; skip
		}
	}
}
