package main

import (
	"fmt"
	"go/types"

	"golang.org/x/tools/go/ssa"
)

// Inlining: a call to a small loop-free package function without a contract is encoded by
// executing the callee's SSA in the caller's context (like Boogie's {:inline}). The callee's
// own obligations are not re-emitted (they are checked when the callee itself is verified).

const (
	inlineMaxBlocks = 14
	inlineMaxDepth  = 3
	inlineBudget    = 400 // blocks per caller
)

func (p *Prog) inlinable(fn *ssa.Function) bool {
	if fn == nil || fn.Blocks == nil || len(fn.Blocks) > inlineMaxBlocks {
		return false
	}
	p.mu.Lock()
	if p.inlineOK == nil {
		p.inlineOK = map[*ssa.Function]bool{}
	}
	v, ok := p.inlineOK[fn]
	p.mu.Unlock()
	if ok {
		return v
	}
	res := true
	if fc := p.Contracts.Funcs[p.FuncName(fn)]; fc != nil && !fc.Flags["inline"] {
		res = false
	}
	if len(fn.FreeVars) > 0 || fn.Recover != nil {
		res = false
	}
	for _, b := range fn.Blocks {
		for _, s := range b.Succs {
			if s.Dominates(b) {
				res = false // loop
			}
		}
		for _, in := range b.Instrs {
			switch in.(type) {
			case *ssa.Defer, *ssa.Go, *ssa.Select, *ssa.Send, *ssa.MakeClosure, *ssa.Range, *ssa.Next, *ssa.Panic:
				res = false
			}
		}
	}
	p.mu.Lock()
	p.inlineOK[fn] = res
	p.mu.Unlock()
	return res
}

type inlineFrame struct {
	fn       *ssa.Function
	name     string
	fc       *FuncContract
	vals     map[ssa.Value]Val
	reach    map[*ssa.BasicBlock]Term
	exit     map[*ssa.BasicBlock]*State
	edgeCond map[[2]int]Term
	rets     []retRec
	defers   []ssa.CallInstruction
	curBlock *ssa.BasicBlock
	curReach Term
	loops    map[*ssa.BasicBlock]*loopInfo
	loopList []*loopInfo
	inLoops  map[*ssa.BasicBlock][]*loopInfo
	rpo      []*ssa.BasicBlock
	reachBlocks map[*ssa.BasicBlock]map[*ssa.BasicBlock]bool
	skip     bool
	prefix   string
	names    map[string][]ssa.Value
	nameAt   map[string]map[ssa.Value]ssa.Instruction
	curInstr ssa.Instruction
}

func (e *Enc) tryInline(fn *ssa.Function, c *ssa.CallCommon, args []Val) ([]Val, bool) {
	if e.inlineDepth >= inlineMaxDepth || e.inlineUsed+len(fn.Blocks) > inlineBudget || !e.p.inlinable(fn) {
		return nil, false
	}
	if len(args) != len(fn.Params) {
		return nil, false
	}
	// save caller frame
	saved := inlineFrame{fn: e.fn, name: e.name, fc: e.fc, vals: e.vals, reach: e.reach, exit: e.exit, edgeCond: e.edgeCond,
		rets: e.rets, defers: e.defers, curBlock: e.curBlock, curReach: e.curReach, loops: e.loops, loopList: e.loopList,
		inLoops: e.inLoops, rpo: e.rpo, reachBlocks: e.reachBlocks, skip: e.skipObligations, prefix: e.prefix, names: e.names, nameAt: e.nameAt, curInstr: e.curInstr}
	nAllocs := len(e.allocs)
	e.inlineSeq++
	e.inlineDepth++
	e.inlineUsed += len(fn.Blocks)
	e.prefix = fmt.Sprintf("%si%d_", saved.prefix, e.inlineSeq)
	e.fn = fn
	e.fc = nil
	e.vals = map[ssa.Value]Val{}
	e.reach = map[*ssa.BasicBlock]Term{}
	e.exit = map[*ssa.BasicBlock]*State{}
	e.edgeCond = map[[2]int]Term{}
	e.rets = nil
	e.defers = nil
	e.skipObligations = true
	e.names = map[string][]ssa.Value{}
	e.nameAt = map[string]map[ssa.Value]ssa.Instruction{}
	e.emit("; inline " + e.p.FuncName(fn))
	e.analyzeCFG()
	for i, pr := range fn.Params {
		v := args[i]
		v.Typ = pr.Type()
		e.vals[pr] = v
	}
	entryReach := saved.curReach
	for i, b := range e.rpo {
		if i == 0 {
			e.curReach = entryReach
		}
		e.encodeBlock(b)
	}
	// merge returns
	var results []Val
	rets := e.rets
	sig := fn.Signature
	if len(rets) == 0 {
		// callee never returns (panics): nothing after the call is reachable on this path
		e.restoreFrame(saved)
		e.assume(False)
		for i := 0; i < sig.Results().Len(); i++ {
			results = append(results, Val{T: e.fresh("noret", e.sortOf(sig.Results().At(i).Type())), Typ: sig.Results().At(i).Type()})
		}
		return results, true
	}
	var edges []Term
	var states []*State
	for _, r := range rets {
		edges = append(edges, r.reach)
		states = append(states, r.state)
	}
	merged := e.mergeStates(&ssa.BasicBlock{Index: 9000 + e.inlineSeq}, edges, states)
	for i := 0; i < sig.Results().Len(); i++ {
		rt := sig.Results().At(i).Type()
		if len(rets) == 1 {
			r := rets[0].vals[i]
			r.Typ = rt
			results = append(results, r)
			continue
		}
		cst := e.fresh(e.prefix+"res", e.sortOf(rt))
		for _, r := range rets {
			e.assert(Implies(r.reach, Eq(cst, e.coerce(r.vals[i]))))
		}
		results = append(results, Val{T: cst, Typ: rt})
	}
	e.restoreFrame(saved)
	e.cur = merged
	// objects allocated by the inlined callee are its business (their invariants are checked where it is verified)
	for i := nAllocs; i < len(e.allocs); i++ {
		e.allocs[i].complete = true
	}
	e.emit("; end inline " + e.p.FuncName(fn))
	return results, true
}

func (e *Enc) restoreFrame(s inlineFrame) {
	e.fn, e.name, e.fc, e.vals, e.reach, e.exit, e.edgeCond = s.fn, s.name, s.fc, s.vals, s.reach, s.exit, s.edgeCond
	e.rets, e.defers, e.curBlock, e.curReach, e.loops, e.loopList = s.rets, s.defers, s.curBlock, s.curReach, s.loops, s.loopList
	e.inLoops, e.rpo, e.reachBlocks, e.skipObligations, e.prefix, e.names = s.inLoops, s.rpo, s.reachBlocks, s.skip, s.prefix, s.names
	e.nameAt, e.curInstr = s.nameAt, s.curInstr
	e.inlineDepth--
}

var _ = types.Typ
