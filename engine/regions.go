package main

import (
	"fmt"
	"go/types"
	"sort"

	"golang.org/x/tools/go/ssa"
)

// Regions are declared per struct type. The frame obligations allow execution code to write fields of
// per-execution types wherever the object came from; that is sound only if objects of these types are never
// reachable from memory that outlives an execution. This file generates the static side of that argument:
// no field of a struct type outside the per-execution regions, and no package-level variable, has a type
// that holds (by value, pointer, slice, array or map) a per-execution struct type.

func (p *Prog) isPerExecStruct(t types.Type) bool {
	n, ok := t.(*types.Named)
	if !ok || n.Obj().Pkg() != p.Types {
		return false
	}
	if _, isStruct := n.Underlying().(*types.Struct); !isStruct {
		return false
	}
	r := p.Contracts.Regions[n.Obj().Name()]
	return r == "perexec" || r == "scratch"
}

func (p *Prog) holdsPerExec(t types.Type, depth int) bool {
	if depth > 6 {
		return false
	}
	if p.isPerExecStruct(t) {
		return true
	}
	switch x := t.(type) {
	case *types.Pointer:
		return p.holdsPerExec(x.Elem(), depth+1)
	case *types.Slice:
		return p.holdsPerExec(x.Elem(), depth+1)
	case *types.Array:
		return p.holdsPerExec(x.Elem(), depth+1)
	case *types.Map:
		return p.holdsPerExec(x.Key(), depth+1) || p.holdsPerExec(x.Elem(), depth+1)
	case *types.Struct:
		for i := 0; i < x.NumFields(); i++ {
			if p.holdsPerExec(x.Field(i).Type(), depth+1) {
				return true
			}
		}
	case *types.Named:
		// a named non-struct type (slice, map, pointer type): look through; named structs are checked on their own
		if _, isStruct := x.Underlying().(*types.Struct); !isStruct {
			if _, isIface := x.Underlying().(*types.Interface); !isIface {
				return p.holdsPerExec(x.Underlying(), depth+1)
			}
		}
	}
	return false
}

// regionObligations: one static obligation per shared struct type and per package-level variable.
func regionObligations(p *Prog) []*Obligation {
	var out []*Obligation
	scope := p.Types.Scope()
	names := scope.Names()
	sort.Strings(names)
	for _, n := range names {
		switch o := scope.Lookup(n).(type) {
		case *types.TypeName:
			st, ok := o.Type().Underlying().(*types.Struct)
			if !ok || p.isPerExecStruct(o.Type()) {
				continue
			}
			bad := ""
			for i := 0; i < st.NumFields(); i++ {
				if p.holdsPerExec(st.Field(i).Type(), 0) {
					bad = st.Field(i).Name()
					break
				}
			}
			ob := &Obligation{Name: "region/" + n + "/holds-no-per-execution-memory", Kind: "region", Func: "(types)", Pos: p.Fset.Position(o.Pos()).String(),
				Props: []string{"C04", "C05"}, Result: "unsat", Solver: "static", Trivial: true,
				Src: "a struct type outside the per-execution regions has no field whose type holds a per-execution struct type"}
			if bad != "" {
				ob.Result = "static-fail"
				ob.Src += " (field " + bad + ")"
			}
			out = append(out, ob)
		case *types.Var:
			ob := &Obligation{Name: "region/G|" + n + "/holds-no-per-execution-memory", Kind: "region", Func: "(types)", Pos: p.Fset.Position(o.Pos()).String(),
				Props: []string{"C04", "C05"}, Result: "unsat", Solver: "static", Trivial: true,
				Src: "a package-level variable does not hold a per-execution struct type"}
			if p.holdsPerExec(o.Type(), 0) {
				ob.Result = "static-fail"
			}
			out = append(out, ob)
		}
	}
	return out
}

// reentryObligations: the static side of termination for recursion that no measure bounds. For a declaration
// "reentry F G...", every call of F that sits in a function reachable from F or from one of the G nests a new
// activation of F inside a running one; since what F processes comes from outside (a loader), nothing bounds
// the nesting. One obligation per such call site; it holds only if there is no such site.
func reentryObligations(p *Prog, prop string) []*Obligation {
	var out []*Obligation
	byName := map[string]*ssa.Function{}
	for _, fn := range p.FuncList {
		byName[p.FuncName(fn)] = fn
	}
	for _, rd := range p.Contracts.Reentry {
		claimed := false
		for _, pr := range rd.Props {
			if pr == prop {
				claimed = true
			}
		}
		if !claimed {
			continue
		}
		target := byName[rd.Funcs[0]]
		if target == nil {
			out = append(out, &Obligation{Name: "reentry/" + rd.Funcs[0] + "/contract-applies", Kind: "contract-applies", Func: "(callgraph)", Props: rd.Props, Result: "static-fail", Solver: "static", Src: "reentry names a function that does not exist"})
			continue
		}
		reach := map[*ssa.Function]bool{}
		var visit func(fn *ssa.Function)
		visit = func(fn *ssa.Function) {
			if fn == nil || reach[fn] {
				return
			}
			reach[fn] = true
			for _, c := range p.calleesOf(fn) {
				visit(c)
			}
		}
		for _, n := range rd.Funcs {
			visit(byName[n])
		}
		var fns []*ssa.Function
		for fn := range reach {
			fns = append(fns, fn)
		}
		sort.Slice(fns, func(i, j int) bool { return p.FuncName(fns[i]) < p.FuncName(fns[j]) })
		found := 0
		for _, fn := range fns {
			ords := map[string]int{}
			for _, b := range fn.Blocks {
				for _, in := range b.Instrs {
					ci, ok := in.(ssa.CallInstruction)
					if !ok || ci.Common().StaticCallee() != target {
						continue
					}
					lh := p.lineHash(in.Pos())
					name := fmt.Sprintf("%s/reentry/%s@%s", p.FuncName(fn), rd.Funcs[0], lh)
					if ords[lh] > 0 {
						name += fmt.Sprintf("#%d", ords[lh])
					}
					ords[lh]++
					found++
					out = append(out, &Obligation{Name: name, Kind: "reentry", Func: p.FuncName(fn), Pos: p.Fset.Position(in.Pos()).String(), Props: rd.Props,
						Result: "static-fail", Solver: "static",
						Src: "the call starts another activation of " + rd.Funcs[0] + " while one is running (the caller is reachable from it): nothing bounds the depth of this recursion"})
				}
			}
		}
		if found == 0 {
			out = append(out, &Obligation{Name: "reentry/" + rd.Funcs[0] + "/never-re-entered", Kind: "reentry", Func: "(callgraph)", Props: rd.Props, Result: "unsat", Solver: "static", Trivial: true,
				Src: "no function reachable from " + rd.Funcs[0] + " calls it"})
		}
	}
	return out
}
