package main

import (
	"go/types"
	"sort"
)

// Regions are declared per struct type. The frame obligations allow execution code to write fields of
// per-execution types wherever the object came from; that is sound only if objects of these types are never
// reachable from memory that outlives an execution. This file generates the static side of that argument:
// no field of a struct type outside the per-execution regions, and no package-level variable, has a type
// that holds (by value, pointer, slice, array or map) a per-execution struct type.

func (p *Prog) isPerExecStruct(t types.Type) bool {
	n, ok := t.(*types.Named)
	if !ok || n.Obj().Pkg() != p.Types {
		return false
	}
	if _, isStruct := n.Underlying().(*types.Struct); !isStruct {
		return false
	}
	r := p.Contracts.Regions[n.Obj().Name()]
	return r == "perexec" || r == "scratch"
}

func (p *Prog) holdsPerExec(t types.Type, depth int) bool {
	if depth > 6 {
		return false
	}
	if p.isPerExecStruct(t) {
		return true
	}
	switch x := t.(type) {
	case *types.Pointer:
		return p.holdsPerExec(x.Elem(), depth+1)
	case *types.Slice:
		return p.holdsPerExec(x.Elem(), depth+1)
	case *types.Array:
		return p.holdsPerExec(x.Elem(), depth+1)
	case *types.Map:
		return p.holdsPerExec(x.Key(), depth+1) || p.holdsPerExec(x.Elem(), depth+1)
	case *types.Struct:
		for i := 0; i < x.NumFields(); i++ {
			if p.holdsPerExec(x.Field(i).Type(), depth+1) {
				return true
			}
		}
	case *types.Named:
		// a named non-struct type (slice, map, pointer type): look through; named structs are checked on their own
		if _, isStruct := x.Underlying().(*types.Struct); !isStruct {
			if _, isIface := x.Underlying().(*types.Interface); !isIface {
				return p.holdsPerExec(x.Underlying(), depth+1)
			}
		}
	}
	return false
}

// regionObligations: one static obligation per shared struct type and per package-level variable.
func regionObligations(p *Prog) []*Obligation {
	var out []*Obligation
	scope := p.Types.Scope()
	names := scope.Names()
	sort.Strings(names)
	for _, n := range names {
		switch o := scope.Lookup(n).(type) {
		case *types.TypeName:
			st, ok := o.Type().Underlying().(*types.Struct)
			if !ok || p.isPerExecStruct(o.Type()) {
				continue
			}
			bad := ""
			for i := 0; i < st.NumFields(); i++ {
				if p.holdsPerExec(st.Field(i).Type(), 0) {
					bad = st.Field(i).Name()
					break
				}
			}
			ob := &Obligation{Name: "region/" + n + "/holds-no-per-execution-memory", Kind: "region", Func: "(types)", Pos: p.Fset.Position(o.Pos()).String(),
				Props: []string{"C04", "C05"}, Result: "unsat", Solver: "static", Trivial: true,
				Src: "a struct type outside the per-execution regions has no field whose type holds a per-execution struct type"}
			if bad != "" {
				ob.Result = "static-fail"
				ob.Src += " (field " + bad + ")"
			}
			out = append(out, ob)
		case *types.Var:
			ob := &Obligation{Name: "region/G|" + n + "/holds-no-per-execution-memory", Kind: "region", Func: "(types)", Pos: p.Fset.Position(o.Pos()).String(),
				Props: []string{"C04", "C05"}, Result: "unsat", Solver: "static", Trivial: true,
				Src: "a package-level variable does not hold a per-execution struct type"}
			if p.holdsPerExec(o.Type(), 0) {
				ob.Result = "static-fail"
			}
			out = append(out, ob)
		}
	}
	return out
}
