package main

// Property definitions: which obligations make up each property (DESIGN.md section 5).
var propDefs = map[string]*PropDef{
	"C03": {
		ID: "C03", Kinds: []string{"monotone", "writers"}, Funcs: "all", Floor: 25,
		Unmech: []string{
			"'for all call histories' follows from the per-method contracts of BanTag/BanFilter/From*/Render* by induction over the history",
			"'no route' follows because every tag is entered through parseTagElement (TagParser protocol precondition) and every filter of an expression through parseVariableOrLiteralWithFilter (chain invariant) or the filter tag",
		},
		Assume: []string{"ReplaceTag/ReplaceFilter/RegisterTag are not called between compilation steps (registry is fixed)"},
	},
	"C04": {
		ID: "C04", Kinds: []string{"frame"}, Funcs: "exec", Floor: 100,
		Unmech: []string{
			"'unchanged after any number of executions' follows from the per-function frame obligations by induction over the execution history",
			"equal contexts give equal output because execution reads only the (unchanged) compiled tree, the context and package state; clock, randomness and map order are excluded by the property",
		},
		Assume: []string{
			"execution reachability is cut at the set's compile API (FromFile/FromString/FromBytes/FromCache, newTemplate, lex, parse): a template compiled during execution (lazy include) is a new object; the call sites of the compile API inside execution code carry their own frame obligation",
			"closure cells are per-activation memory",
		},
	},
}
