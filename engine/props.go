package main

// Property definitions: which obligations make up each property (DESIGN.md section 5).
var propDefs = map[string]*PropDef{
	"C01": {
		ID: "C01", Kinds: []string{"bounds", "slice", "divzero", "typeassert", "panic", "makeslice", "decreases", "nilderef", "nonnil"}, Funcs: "all", Floor: 500,
		Unmech: []string{
			"recursion: termination of the mutually recursive parser and evaluator functions (bounded by the token list / the acyclic compiled tree) is argued, not proved; the macro recursion guard is C13",
			"a panic-free, terminating execution of every function implies the same for whole compilations/executions by induction over the call tree",
		},
		Assume: []string{
			"recursion through the loaders (a file that includes, extends, imports or ssi-parses itself; a lazy self-include) is a call-graph obligation (reentry), decided statically, that fails at five call sites: recorded findings (the process dies of stack overflow); reflect.Value.Call needs a non-nil function (proved), FieldByIndex/FieldByName need a path without nil embedded pointers (an uninterpreted precondition: the package must not use them on context values)",
			"nil dereferences are an obligation class only for pointers that may be nil by origin (results of package functions with a `return nil`, map lookups, failed comma-ok assertions, nil constants); pointers of any other origin (parameters, fields and elements loaded from the heap, results of library calls) are assumed non-nil where they are dereferenced",
			"stack depth and memory exhaustion for input-proportional recursion and allocation are not modelled",
			"reflect, strings, strconv, regexp, fmt, sort behave as their (assumed) contracts say; panics inside user callbacks are external",
			"the lorem word/paragraph tables (split from a constant text) are non-empty",
			"obligations listed in undecided.txt could not be decided by the tool and are NOT claimed",
		},
	},
	"C02": {
		ID: "C02", Funcs: "all", Floor: 20,
		Unmech: []string{
			"'appears only in escaped form' is reduced to a sink discipline: every write to the output is classified (template text, number, escape-filter result, body output, explicit opt-out) and the classification of each site is proved; that the escape filter neutralises the five characters is C17's subject and is assumed here",
			"values marked safe come only from the listed constructors; that their text is body output or HTML-aware truncation is by inspection of those four functions",
		},
		Assume: []string{"filters[\"escape\"] is the built-in escape filter (ReplaceFilter is not used to swap it)"},
	},
	"C03": {
		ID: "C03", Kinds: []string{"monotone", "writers"}, Funcs: "all", Floor: 25,
		Unmech: []string{
			"'for all call histories' follows from the per-method contracts of BanTag/BanFilter/From*/Render* by induction over the history",
			"'no route' follows because every tag is entered through parseTagElement (TagParser protocol precondition) and every filter of an expression through parseVariableOrLiteralWithFilter (chain invariant) or the filter tag",
		},
		Assume: []string{"ReplaceTag/ReplaceFilter/RegisterTag are not called between compilation steps (registry is fixed)"},
	},
	"C05": {
		ID: "C05", Kinds: []string{"frame@exec", "lock", "guard"}, Funcs: "all", Floor: 110,
		Unmech: []string{
			"schedules are not enumerated: the proved statements are the sufficient condition (i) execution writes only memory that is fresh in the call or per-execution and (ii) every access to the template cache happens with the set's mutex held, lookup and fill in one critical section; data-race freedom and 'same result as alone' follow with the Go memory model (DRF-SC), which is assumed",
		},
		Assume: []string{
			"sync.Mutex Lock/Unlock are modelled by a ghost 'held' flag per mutex address; functions are entered with no lock held",
			"library objects read concurrently (*regexp.Regexp, math/rand top-level functions, log.Logger) are goroutine-safe by their documentation",
			"TemplateSet.Debug is read without the lock (documented by upstream as the user's duty)",
		},
	},
	"C15": {
		ID: "C15", Funcs: "all", Floor: 8,
		Unmech: []string{
			"'equals rendering the source from which that whitespace was deleted by hand' is the composition of the proved steps: the dash is recognised on three-character delimiters only and marks the token; the parser asks a text node to trim a side exactly when the neighbouring delimiter on that side carries the mark; the node trims with strings.TrimLeft/TrimRight and the set space, tab, CR, LF, on the asked sides only",
			"spaceless: the regular expression is library code (assumed); the loop applies it until nothing changes",
		},
	},
	"C16": {
		ID: "C16", Funcs: "all", Floor: 8,
		Unmech: []string{
			"that (line, col) equals the real line and byte column of the position: proved are the local steps (every move of pos moves col by the same amount; line changes only in run at a newline, where col restarts; tokens and error tokens snapshot startline/startcol, which are copied from line/col exactly when start is set to pos); the induction over the input is on paper",
			"columns count bytes, not characters",
		},
	},
	"C17": {
		ID: "C17", Funcs: "all", Floor: 15,
		Unmech: []string{
			"the output-level statements (no raw < > \" ' in escape's output, unescaping gives the input back, addslashes puts a backslash before every quote and backslash and nothing else) follow from the proved call structure by a lemma about strings.Replace with single-character patterns applied in this order; the lemma is on paper (the engine has no replace theory)",
			"urlencode/iriencode delegate the encoding to net/url.QueryEscape, striptags/removetags to regular expressions: library code, assumed",
		},
	},
	"C18": {
		ID: "C18", Kinds: []string{}, Funcs: "all", Floor: 25,
		Unmech: []string{
			"the reference definitions are the spec functions (pyLo/pyHi ...) and postconditions in the contract file, written from the property statement; that those are the Django/Python semantics is by inspection",
			"string-shaping filters that delegate to the library (upper/lower/title/cut/join/split/linebreaksbr/date/stringformat/urlize/linebreaks/truncate*_html) are covered only by the safety sweep, not by functional contracts",
		},
		Assume: []string{"strings.ContainsRune on the constant set of whitespace characters holds for exactly those four characters (axiom over runein, as in the engine's model of constant sets); a one-character string is determined by its character; the further bytes of a multi-byte rune are continuation bytes (utf8.DecodeRuneInString)", 
			"Value accessors are functions of the wrapped reflect.Value (clauses labelled assume-): RVIntegerOf, RVStringOf, RVFloatOf, RVLenOf, RVIsTrueOf are uninterpreted",
			"strings.Repeat/Fields/Split/TrimSpace behave as documented",
		},
	},
	"C19": {
		ID: "C19", Kinds: []string{"callers"}, Funcs: "all", Floor: 30,
		Unmech: []string{
			"v|f1:a1|f2:a2 == f2(f1(v,a1),a2): the chain is built by appending in parse order (proved at the append) and applied by a range loop in index order, each filter on the previous result with its parameter evaluated in the same context (proved at the calls); the fold over chain length is on paper",
			"'binds tighter than any operator': parseFactor is the only caller of the filter-chain parser (proved) and parseFactor is the innermost level of the expression grammar (C07)",
		},
		Assume: []string{"ReplaceFilter is not called between compiling and executing a template (a compiled filterCall keeps the function it was bound to)"},
	},
	"C20": {
		ID: "C20", Kinds: []string{"lock", "guard"}, Funcs: "all", Floor: 20,
		Unmech: []string{
			"linearisation: each cache operation is atomic because it is one critical section (proved), so every concurrent history is equivalent to a sequential history of the proved sequential specifications; 'one compile per name until cleaned' follows",
			"set isolation (no package-level cache) follows from the frame: no function writes package-level state after init (C04 global-write obligations)",
		},
		Assume: []string{"loaders are deterministic functions of (base, name): LoaderAbs is an uninterpreted function", "FromFile's frame (writes only the freeze flag and fresh objects) is an assumed contract"},
	},
	"C12": {
		ID: "C12", Kinds: []string{}, Funcs: "exec", Floor: 80,
		Unmech: []string{
			"'gone after the construct, outer bindings intact' follows from: the construct writes only the child's fresh map (proved at every map update), the body runs in the child (proved at the call), and the child map is a copy (proved) - composition over nesting depth on paper",
		},
		Assume: []string{"reIdentifiers is ^[a-zA-Z0-9_]+$ (written by package initialisation only, a writers rule): what it matches is an identifier (spec function) and an identifier is not empty (axiom); the sort package is modelled as rearranging exactly the slice it is given", "map iteration is modelled with a ghost set of delivered keys (every key delivered exactly once)"},
	},
	"C06": {
		ID: "C06", Funcs: "all", Floor: 15,
		Unmech: []string{
			"'a source without delimiters renders to itself' and concatenativity are the composition of: run emits every stretch of pending text as one HTML token carrying exactly that substring, drops only the verbatim delimiters and whole comments, and hands over to tokenize only at an opening delimiter; the parser wraps each HTML token in one node; the node writes the token text (trimmed only when a dash asked for it)",
			"the state functions are reached through function values; that they are entered with nothing pending is assumed at their entry",
		},
	},
	"C07": {
		ID: "C07", Funcs: "all", Floor: 30,
		Unmech: []string{
			"'evaluates as its fully parenthesised reading says' is the composition of the per-level parser lemmas (which level calls which, how each loop iteration extends the tree) with the per-node evaluation lemmas; the induction over the expression tree is on paper",
			"lexing of the operator symbols (longest match) belongs to the lexer properties",
		},
	},
	"C08": {
		ID: "C08", Funcs: "all", Floor: 10,
		Unmech: []string{
			"that the chain of steps denotes 'exactly the value obtained by following its steps' is the composition of the per-step clauses (each step performs one reflect operation with the written or evaluated key on the current value) over the loop; reflect itself is library code under assumed contracts (kind-indexed preconditions = its documented panic conditions)",
			"function calls: the argument-count and argument-type checks are proved to precede Call for the count; per-argument assignability is checked by argumentFits and not carried to Call's contract",
		},
	},
	"C09": {
		ID: "C09", Funcs: "all", Floor: 30,
		Unmech: []string{
			"forloop.First / Last over a whole iteration: proved per callback invocation (idx == 1 clears First, idx+1 == count sets Last, otherwise unchanged; initial First && !Last at the IterateOrder call) and per IterateOrder loop (callbacks receive idx = 0,1,2,... and the same count); the induction over the invocation sequence is on paper",
			"sorted order is delegated to sort.Sort / sort.SliceStable (library, trusted)",
			"nesting depth: each construct's lemma is independent of where the node sits in the tree",
		},
	},
	"C10": {
		ID: "C10", Funcs: "all", Floor: 30,
		Unmech: []string{
			"the whole-document statement (every block of the rendered base shows the most-derived definition, to any depth) is the composition, on paper, of the proved lemmas: execution starts at the root document; block lookup walks child links from the root, appending each template's own definition at the end; the last entry runs and the rest is published as the Super chain; Super runs the last entry of its chain with the rest",
			"invariants that mention a neighbour's field (parent.child == self) are re-checked for the objects a function writes, not for every object that refers to them",
		},
	},
	"C11": {
		ID: "C11", Kinds: []string{"effect", "callers"}, Funcs: "all", Floor: 10,
		Unmech: []string{
			"'nothing else is read' for whole executions follows from the effect obligations (no file-system primitive is called outside TemplateLoader methods) by induction over the call graph",
			"equal renderings of static and lazy include for rooted names follow from both computing FromFile(resolveFilename(T, name)) (proved at the call sites) and the loader's Abs ignoring T for rooted names (loader's contract)",
		},
		Assume: []string{
			"strconv.Atoi(s) and ParseInt(s, 10, n) return the number the decimal digits of s spell (spec function DecimalInt), ParseFloat(s, 64) likewise; nothing is assumed for other bases","loaders are deterministic: Abs and the success of Get are uninterpreted functions of (loader, arguments); what a loader does with '..' is the loader's business", "path algebra (filepath.Join/Dir/IsAbs) is uninterpreted"},
	},
	"C13": {
		ID: "C13", Kinds: []string{"preserved"}, Funcs: "all", Floor: 20,
		Unmech: []string{
			"recursion bound: every macro body runs with the context's counter between 1 and maxMacroDepth (proved), the counter is incremented for the duration of the call and restored by every function (proved: preserved field), hence nested macro calls on one context are at most maxMacroDepth deep; the induction hypothesis (counter between 0 and the limit at macro entry) is the stated precondition of the function values called through reflection",
			"'an imported macro behaves like the local one' follows from the import binding the same node object and both function values calling node.call with the same arguments (proved)",
		},
		Assume: []string{"macro function values are invoked through reflect.Value.Call with the arguments written in the template (C08)"},
	},
	"C14": {
		ID: "C14", Kinds: []string{"opaque@exec", "callers"}, Funcs: "all", Floor: 15,
		Unmech: []string{
			"'same bytes, same failures' follows from: the four entry points call the same execute with the same template and context (proved at the call sites), execution never inspects its writer (proved: no type assertion on a writer in execution code), and execution is a function of template and context (C04); the unbuffered output on failure is then a prefix of the successful one",
		},
		Assume: []string{"errors of writes to the output writer and to in-memory buffers may be dropped (ignorable-errors): bytes.Buffer and strings.Builder never fail, and for a failing output writer the property promises something only for ExecuteWriter, which returns the error of the final WriteTo; an error value that comes from outside the package (loader, writer, application function, reflect) does not hold a nil *Error", "bytes.Buffer.WriteTo delivers the buffer with one Write call and returns that call's error"},
	},
	"C04": {
		ID: "C04", Kinds: []string{"frame"}, Funcs: "exec", Floor: 100,
		Unmech: []string{
			"'unchanged after any number of executions' follows from the per-function frame obligations by induction over the execution history",
			"equal contexts give equal output because execution reads only the (unchanged) compiled tree, the context and package state; clock, randomness and map order are excluded by the property",
		},
		Assume: []string{
			"execution reachability is cut at the set's compile API (FromFile/FromString/FromBytes/FromCache, newTemplate, lex, parse): a template compiled during execution (lazy include) is a new object; the call sites of the compile API inside execution code carry their own frame obligation",
			"closure cells are per-activation memory",
		},
	},
}
