package main

// Replay cases: concrete experiments against the real code for failed obligations.

const twiceHelper = `
	run := func(src string, ctx Context, opts *Options) (string, string) {
		set := NewSet("replay", &zzLoader{files: map[string]string{}})
		if opts != nil { set.Options = opts }
		tpl, err := set.FromString(src)
		if err != nil { t.Logf("compile error: %v", err); return "", "" }
		a, e1 := tpl.Execute(ctx)
		b, e2 := tpl.Execute(ctx)
		return fmt.Sprintf("%q/%v", a, e1), fmt.Sprintf("%q/%v", b, e2)
	}
	check := func(src string, ctx Context, opts *Options) {
		a, b := run(src, ctx, opts)
		if a != b { fmt.Printf("REPRODUCED: template %q rendered twice with the same context gives %s then %s\n", src, a, b) }
	}
`

const loaderDecl = `
type zzLoader struct{ files map[string]string; log []string }
func (l *zzLoader) Abs(base, name string) string { return name }
func (l *zzLoader) Get(path string) (io.Reader, error) {
	l.log = append(l.log, path)
	if s, ok := l.files[path]; ok { return strings.NewReader(s), nil }
	return nil, fmt.Errorf("not found: %s", path)
}
`

func init() {
	replayCases = append(replayCases,
		replayCase{Prop: "C04", Pattern: `tagCycleNode\)\.Execute/frame/store`, Imports: []string{"io", "strings"},
			Test: twiceHelper + `	check("{% cycle 1 2 %}", Context{}, nil)
	check("{% for i in l %}{% cycle 'a' 'b' as c %}{% cycle c %}{% endfor %}", Context{"l": []int{1, 2, 3}}, nil)`},
		replayCase{Prop: "C04", Pattern: `tagIfchangedNode\)\.Execute/frame/store`, Imports: []string{"io", "strings"},
			Test: twiceHelper + `	check("{% ifchanged %}x{% endifchanged %}", Context{}, nil)
	check("{% ifchanged a %}x{% else %}y{% endifchanged %}", Context{"a": 1}, nil)`},
		replayCase{Prop: "C04", Pattern: `newContextForExecution/frame/store/F\|Token\|Val`, Imports: []string{"io", "strings"},
			Test: twiceHelper + `	check("{% if 1 %}\n\n\nx{% endif %}", Context{}, &Options{TrimBlocks: true})
	check("a  \t{% if 1 %}x{% endif %}", Context{}, &Options{LStripBlocks: true})`},
		replayCase{Prop: "C05", Pattern: `tagCycleNode\)\.Execute/frame`, Race: true, Imports: []string{"sync"},
			Test: `	set := NewSet("replay", &zzLoader{files: map[string]string{"inc.tpl": "x"}})
	srcs := []string{"{% cycle 1 2 %}"}
	for _, src := range srcs {
		tpl, err := set.FromString(src)
		if err != nil { continue }
		var wg sync.WaitGroup
		for g := 0; g < 4; g++ {
			wg.Add(1)
			go func() { defer wg.Done(); c := zzContext(); c["name"] = "inc.tpl"; for i := 0; i < 20; i++ { tpl.Execute(c) } }()
		}
		wg.Wait()
	}`},
		replayCase{Prop: "C05", Pattern: `tagIfchangedNode\)\.Execute/frame`, Race: true, Imports: []string{"sync"},
			Test: `	set := NewSet("replay", &zzLoader{files: map[string]string{"inc.tpl": "x"}})
	srcs := []string{"{% ifchanged %}x{% endifchanged %}{% ifchanged a %}y{% endifchanged %}"}
	for _, src := range srcs {
		tpl, err := set.FromString(src)
		if err != nil { continue }
		var wg sync.WaitGroup
		for g := 0; g < 4; g++ {
			wg.Add(1)
			go func() { defer wg.Done(); c := zzContext(); c["name"] = "inc.tpl"; for i := 0; i < 20; i++ { tpl.Execute(c) } }()
		}
		wg.Wait()
	}`},
		replayCase{Prop: "C05", Pattern: `newContextForExecution/frame/store/F\|Token\|Val`, Race: true, Imports: []string{"sync"},
			Test: `	set := NewSet("replay", &zzLoader{files: map[string]string{"inc.tpl": "x"}})
	set.Options = &Options{TrimBlocks: true, LStripBlocks: true}
	srcs := []string{"a  {% if a %}\\n\\n  z{% endif %}"}
	for _, src := range srcs {
		tpl, err := set.FromString(src)
		if err != nil { continue }
		var wg sync.WaitGroup
		for g := 0; g < 4; g++ {
			wg.Add(1)
			go func() { defer wg.Done(); c := zzContext(); c["name"] = "inc.tpl"; for i := 0; i < 20; i++ { tpl.Execute(c) } }()
		}
		wg.Wait()
	}`},
		replayCase{Prop: "C05", Pattern: `frame/call/\(\*TemplateSet\)\.FromFile`, Race: true, Imports: []string{"sync"},
			Test: `	set := NewSet("replay", &zzLoader{files: map[string]string{"inc.tpl": "x"}})
	srcs := []string{"{% include name %}"}
	for _, src := range srcs {
		tpl, err := set.FromString(src)
		if err != nil { continue }
		var wg sync.WaitGroup
		for g := 0; g < 4; g++ {
			wg.Add(1)
			go func() { defer wg.Done(); c := zzContext(); c["name"] = "inc.tpl"; for i := 0; i < 20; i++ { tpl.Execute(c) } }()
		}
		wg.Wait()
	}`},
		replayCase{Prop: "C05", Pattern: `/frame/|/guard/|/lock/`, Race: true, Imports: []string{"sync"},
			Test: `	set := NewSet("replay", &zzLoader{files: map[string]string{"inc.tpl": "x"}})
	srcs := zzCatalogue
	for _, src := range srcs {
		tpl, err := set.FromString(src)
		if err != nil { continue }
		var wg sync.WaitGroup
		for g := 0; g < 4; g++ {
			wg.Add(1)
			go func() { defer wg.Done(); c := zzContext(); c["name"] = "inc.tpl"; for i := 0; i < 20; i++ { tpl.Execute(c) } }()
		}
		wg.Wait()
	}`},
		// generic fallback for any frame violation in a node: render a catalogue of templates twice
		replayCase{Prop: "C04", Pattern: `/frame/`, Imports: []string{"io", "strings"},
			Test: twiceHelper + `	for _, src := range zzCatalogue { check(src, zzContext(), nil) }`},
	)
}

// catalogue of templates touching every tag, used by generic replays
const catalogueDecl = `
var zzCatalogue = []string{
	"{% for i in l %}{{ forloop.Counter }}{{ forloop.Last }}{% empty %}e{% endfor %}",
	"{% if a %}1{% elif b %}2{% else %}3{% endif %}{% ifequal a 1 %}e{% endifequal %}{% ifnotequal a 1 %}n{% endifnotequal %}",
	"{% with x=a %}{{ x }}{% endwith %}{% set y = a + 1 %}{{ y }}",
	"{% macro m(p, q=2) %}{{ p }}{{ q }}{% endmacro %}{{ m(1) }}{{ m(1, 3) }}",
	"{% filter upper %}abc{% endfilter %}{% firstof a b %}{% autoescape off %}{{ s }}{% endautoescape %}",
	"{% spaceless %}<a> </a>{% endspaceless %}{% templatetag openblock %}{% widthratio 5 10 100 %}{% now \"2006\" fake %}{% lorem 2 w %}",
	"{{ s|upper|lower|length }}{{ l|join:\",\" }}{{ l|first }}{{ l|last }}{{ m.k }}{{ l.0 }}{{ s|slice:\"1:2\" }}{{ f(2) }}",
	"a\n{% if a %}\n  b\n{% endif %}\n  {% comment %}x{% endcomment %}{# c #}{% verbatim %}{{ v }}{% endverbatim %}",
}
func zzContext() Context {
	return Context{"a": 1, "b": 0, "s": "<b>Hi & bye</b>", "l": []int{3, 1, 2}, "m": map[string]int{"k": 7}, "f": func(i int) int { return i * 2 }}
}
`

func init() {
	replayPrelude = loaderDecl + catalogueDecl
}
