package main

import (
	"fmt"
	"go/constant"
	"go/token"
	"go/types"

	"golang.org/x/tools/go/ssa"
)

// Precise models of a few library functions. Each is an ASSUMED contract, listed in the evidence.
type externModel func(e *Enc, c *ssa.CallCommon, args []Val, pos token.Pos) ([]Val, bool)

var externModels map[string]externModel

var externModelDocs = map[string]string{
	"strings.HasPrefix":             "HasPrefix(s, lit) <=> len(s) >= len(lit) && s[i] == lit[i] for all i (lit constant)",
	"strings.HasSuffix":             "HasSuffix(s, lit) <=> len(s) >= len(lit) && s[len(s)-len(lit)+i] == lit[i] (lit constant)",
	"unicode/utf8.DecodeRuneInString": "DecodeRuneInString(s): len(s)==0 => (RuneError,0); else 1<=size<=4, size<=len(s), 0<=r<=0x10FFFF, s[0]<0x80 => (r,size)==(s[0],1), s[0]>=0x80 => r>=0x80, size>i => 0x80<=s[i]<=0xBF for i=1..3",
	"strings.ContainsRune":          "ContainsRune(lit, r) <=> r is one of the runes of the constant lit (ASCII constants only); for any other set only ContainsRune(s, r) => r >= 0",
	"(*sync.Mutex).Lock":            "Lock sets the ghost flag held(m); requires !held(m) (no re-entrancy)",
	"(*sync.Mutex).Unlock":          "Unlock requires held(m) and clears it",
}

func init() {
	externModels = map[string]externModel{
		"strings.HasPrefix":               modelHasPrefix,
		"strings.HasSuffix":               modelHasSuffix,
		"utf8.DecodeRuneInString":         modelDecodeRune,
		"strings.ContainsRune":            modelContainsRune,
		"(*sync.Mutex).Lock":              modelLock,
		"(*sync.Mutex).Unlock":            modelUnlock,
	}
}

func constString(v ssa.Value) (string, bool) {
	if c, ok := v.(*ssa.Const); ok && c.Value != nil && c.Value.Kind() == constant.String {
		return constant.StringVal(c.Value), true
	}
	return "", false
}

// globalConstString: value of a package-level string variable that is never reassigned
// (initialised once in the package initialiser with a constant).
func (p *Prog) globalConstString(g *ssa.Global) (string, bool) {
	p.mu.Lock()
	defer p.mu.Unlock()
	if p.globalStr == nil {
		p.globalStr = map[*ssa.Global]*string{}
		stores := map[*ssa.Global]int{}
		for _, fn := range p.allFuncsWithBodies() {
			for _, b := range fn.Blocks {
				for _, in := range b.Instrs {
					if st, ok := in.(*ssa.Store); ok {
						if gl, ok := st.Addr.(*ssa.Global); ok {
							stores[gl]++
							if s, ok := constString(st.Val); ok && fn.Name() == "init" {
								s2 := s
								p.globalStr[gl] = &s2
							} else {
								p.globalStr[gl] = nil
								stores[gl] += 100
							}
						}
					} else {
						// address taken otherwise?
						for _, op := range in.Operands(nil) {
							if gl, ok := (*op).(*ssa.Global); ok {
								if u, isLoad := in.(*ssa.UnOp); isLoad && u.X == gl {
									continue
								}
								stores[gl] += 100
							}
						}
					}
				}
			}
		}
		for gl, n := range stores {
			if n != 1 {
				delete(p.globalStr, gl)
			}
		}
	}
	s := p.globalStr[g]
	if s == nil {
		return "", false
	}
	return *s, true
}

func (p *Prog) allFuncsWithBodies() []*ssa.Function {
	var out []*ssa.Function
	out = append(out, p.FuncList...)
	return out
}

// stringOfValue: constant string behind an SSA value (literal or load of an init-only global).
func (e *Enc) stringOfValue(v ssa.Value) (string, bool) {
	if s, ok := constString(v); ok {
		return s, true
	}
	if u, ok := v.(*ssa.UnOp); ok && u.Op == token.MUL {
		if g, ok := u.X.(*ssa.Global); ok {
			return e.p.globalConstString(g)
		}
	}
	return "", false
}

func modelHasPrefix(e *Enc, c *ssa.CallCommon, args []Val, pos token.Pos) ([]Val, bool) {
	lit, ok := e.stringOfValue(c.Args[1])
	if !ok {
		// a prefix that is not a literal: only the length relation is modelled
		r := e.fresh("hasprefix", SBool)
		e.assert(Implies(r, Ge(StrLen(e.coerce(args[0])), StrLen(e.coerce(args[1])))))
		return []Val{{T: r, Typ: types.Typ[types.Bool]}}, true
	}
	s := e.coerce(args[0])
	conds := []Term{Ge(StrLen(s), IntLit(int64(len(lit))))}
	for i := 0; i < len(lit); i++ {
		conds = append(conds, Eq(StrAt(s, IntLit(int64(i))), IntLit(int64(lit[i]))))
	}
	r := e.fresh("hasprefix", SBool)
	e.assert(Eq(r, And(conds...)))
	return []Val{{T: r, Typ: types.Typ[types.Bool]}}, true
}

func modelHasSuffix(e *Enc, c *ssa.CallCommon, args []Val, pos token.Pos) ([]Val, bool) {
	lit, ok := e.stringOfValue(c.Args[1])
	if !ok {
		return nil, false
	}
	s := e.coerce(args[0])
	n := int64(len(lit))
	conds := []Term{Ge(StrLen(s), IntLit(n))}
	for i := int64(0); i < n; i++ {
		conds = append(conds, Eq(StrAt(s, Add(Sub(StrLen(s), IntLit(n)), IntLit(i))), IntLit(int64(lit[i]))))
	}
	r := e.fresh("hassuffix", SBool)
	e.assert(Eq(r, And(conds...)))
	return []Val{{T: r, Typ: types.Typ[types.Bool]}}, true
}

func modelDecodeRune(e *Enc, c *ssa.CallCommon, args []Val, pos token.Pos) ([]Val, bool) {
	s := e.coerce(args[0])
	r := e.fresh("rune", SInt)
	w := e.fresh("runew", SInt)
	b0 := StrAt(s, IntLit(0))
	e.assume(Implies(Eq(StrLen(s), IntLit(0)), And(Eq(w, IntLit(0)), Eq(r, IntLit(0xFFFD)))))
	e.assume(Implies(Gt(StrLen(s), IntLit(0)), And(Ge(w, IntLit(1)), Le(w, IntLit(4)), Le(w, StrLen(s)), Ge(r, IntLit(0)), Le(r, IntLit(0x10FFFF)))))
	e.assume(Implies(And(Gt(StrLen(s), IntLit(0)), Lt(b0, IntLit(0x80))), And(Eq(r, b0), Eq(w, IntLit(1)))))
	e.assume(Implies(And(Gt(StrLen(s), IntLit(0)), Ge(b0, IntLit(0x80))), Ge(r, IntLit(0x80))))
	e.assume(And(Ge(b0, IntLit(0)), Le(b0, IntLit(255))))
	// a size above one means a valid multi-byte encoding: every further byte of it is a continuation byte
	for i := int64(1); i <= 3; i++ {
		e.assume(Implies(Gt(w, IntLit(i)), And(Ge(StrAt(s, IntLit(i)), IntLit(0x80)), Le(StrAt(s, IntLit(i)), IntLit(0xBF)))))
	}
	return []Val{{T: r, Typ: types.Typ[types.Int32]}, {T: w, Typ: types.Typ[types.Int]}}, true
}

func modelContainsRune(e *Enc, c *ssa.CallCommon, args []Val, pos token.Pos) ([]Val, bool) {
	lit, ok := e.stringOfValue(c.Args[0])
	for i := 0; ok && i < len(lit); i++ {
		if lit[i] >= 0x80 {
			ok = false
		}
	}
	if !ok {
		// a set that is not an ASCII constant: only "a string contains no negative rune" is modelled
		// (IndexRune returns -1 for values that are not valid runes)
		e.declareFun("rune_in", []Sort{SStr, SInt}, SBool)
		r := e.define("containsrune", App(SBool, "rune_in", e.coerce(args[0]), e.coerce(args[1])))
		e.assert(Implies(r, Ge(e.coerce(args[1]), IntLit(0))))
		return []Val{{T: r, Typ: types.Typ[types.Bool]}}, true
	}
	rv := e.coerce(args[1])
	var alts []Term
	seen := map[byte]bool{}
	for i := 0; i < len(lit); i++ {
		if !seen[lit[i]] {
			seen[lit[i]] = true
			alts = append(alts, Eq(rv, IntLit(int64(lit[i]))))
		}
	}
	r := e.fresh("containsrune", SBool)
	e.assert(Eq(r, Or(alts...)))
	// the same fact in terms of the uninterpreted membership predicate that contracts can name (runein)
	e.declareFun("rune_in", []Sort{SStr, SInt}, SBool)
	e.assert(Eq(App(SBool, "rune_in", e.coerce(args[0]), rv), r))
	return []Val{{T: r, Typ: types.Typ[types.Bool]}}, true
}

// lock discipline ghost: held : Array Int Bool keyed by the mutex address term
func (e *Enc) mutexKey(a Val) Term { return e.coerce(a) }

func modelLock(e *Enc, c *ssa.CallCommon, args []Val, pos token.Pos) ([]Val, bool) {
	m := e.mutexKey(args[0])
	held := e.heldArr()
	e.lockCount++
	e.oblige("lock", "no-reentry", pos, Not(Select(held, m)), []string{"C05", "C20"}, "mutex must not be held when locked")
	e.setHeld(Store(held, m, True))
	return nil, true
}

func modelUnlock(e *Enc, c *ssa.CallCommon, args []Val, pos token.Pos) ([]Val, bool) {
	m := e.mutexKey(args[0])
	held := e.heldArr()
	e.oblige("lock", "held-at-unlock", pos, Select(held, m), []string{"C05", "C20"}, "mutex must be held when unlocked")
	e.setHeld(Store(held, m, False))
	return nil, true
}

func (e *Enc) heldArr() Term {
	if t, ok := e.cur.heap["gh|$held"]; ok {
		return t
	}
	if t, ok := e.heap0["gh|$held"]; ok {
		return t
	}
	c := e.declare("H0_held", ArraySort(SInt, SBool))
	e.heap0["gh|$held"] = c
	// at function entry no mutex is held by this goroutine (a function meant to run under a lock would say so in requires)
	e.assert(Eq(c, mk(ArraySort(SInt, SBool), "((as const (Array Int Bool)) false)")))
	return c
}

func (e *Enc) setHeld(t Term) {
	e.heldArr()
	e.cur.heap["gh|$held"] = e.define("held", t)
}

var _ = fmt.Sprintf
