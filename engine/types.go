package main

import (
	"fmt"
	"go/types"
	"sort"
	"strings"
)

// KeySet is a set of heap keys (see heap key scheme in DESIGN.md).
type KeySet map[string]bool

func (k KeySet) Add(s string) bool {
	if k[s] {
		return false
	}
	k[s] = true
	return true
}

func (k KeySet) AddAll(o KeySet) bool {
	ch := false
	for s := range o {
		if !k[s] {
			k[s] = true
			ch = true
		}
	}
	return ch
}

func (k KeySet) Sorted() []string {
	var out []string
	for s := range k {
		out = append(out, s)
	}
	sort.Strings(out)
	return out
}

// Typer maps Go types to SMT sorts; shared by all encoders of one Prog (pure functions of types).
type Typer struct {
	p *Prog
}

func (p *Prog) isLocalNamed(t types.Type) (*types.Named, bool) {
	n, ok := t.(*types.Named)
	if !ok {
		return nil, false
	}
	if n.Obj().Pkg() == p.Types {
		return n, true
	}
	return n, false
}

// structSortName: name of the SMT sort for a struct type used by value.
func (p *Prog) structSortName(t types.Type) (name string, local bool, st *types.Struct) {
	st, _ = t.Underlying().(*types.Struct)
	if n, ok := t.(*types.Named); ok {
		if n.Obj().Pkg() == p.Types {
			return "S_" + sanitize(n.Obj().Name()), true, st
		}
		pk := ""
		if n.Obj().Pkg() != nil {
			pk = n.Obj().Pkg().Name()
		}
		return "X_" + sanitize(pk+"_"+n.Obj().Name()), false, st
	}
	// anonymous struct
	return "S_anon_" + sanitize(types.TypeString(t, nil)), true, st
}

// SortOf maps a Go type to an SMT sort. Tuples are not sorts (handled as Go-side tuples).
func (p *Prog) SortOf(t types.Type) Sort {
	switch u := t.Underlying().(type) {
	case *types.Basic:
		switch {
		case u.Info()&types.IsBoolean != 0:
			return SBool
		case u.Info()&types.IsInteger != 0:
			return SInt
		case u.Info()&types.IsFloat != 0:
			return SF64
		case u.Info()&types.IsString != 0:
			return SStr
		case u.Kind() == types.UnsafePointer:
			return SInt
		case u.Kind() == types.UntypedNil:
			return SInt
		case u.Info()&types.IsComplex != 0:
			return Sort("X_complex")
		}
		return SInt
	case *types.Pointer, *types.Map, *types.Chan, *types.Signature, *types.Interface:
		return SInt
	case *types.Slice:
		return SSlice
	case *types.Struct:
		n, _, _ := p.structSortName(t)
		return Sort(n)
	case *types.Array:
		return Sort("X_array_" + sanitize(p.relTypeString(t)))
	case *types.Tuple:
		return Sort("X_tuple")
	}
	return Sort("X_unknown")
}

// heap key helpers

func (p *Prog) structKeyName(t types.Type) string {
	if n, ok := t.(*types.Named); ok {
		if n.Obj().Pkg() == p.Types || n.Obj().Pkg() == nil {
			return n.Obj().Name()
		}
		return n.Obj().Pkg().Name() + "." + n.Obj().Name()
	}
	return sanitize(types.TypeString(t, nil))
}

func (p *Prog) fieldKey(structT types.Type, idx int) string {
	st := structT.Underlying().(*types.Struct)
	return "F|" + p.structKeyName(structT) + "|" + st.Field(idx).Name()
}

// element heaps are per Go element type (slices of different element types cannot alias)
func (p *Prog) elemKey(elem types.Type) string {
	return "E|" + string(p.SortOf(elem)) + "|" + sanitize(p.relTypeString(elem))
}
func (p *Prog) cellKey(elem types.Type) string { return "C|" + string(p.SortOf(elem)) }
// map heap keys are per Go map type (so that e.g. the template cache and a template's block table
// live in different arrays although both are map[string]pointer)
func (p *Prog) mapKey(m *types.Map) string {
	return "M|" + string(p.SortOf(m.Key())) + "|" + string(p.SortOf(m.Elem())) + "|" + sanitize(p.relTypeString(m))
}
func (p *Prog) wildKey(elem types.Type) string { return "W|" + string(p.SortOf(elem)) }

// keyValueSort returns the sort of the *stored value* for F/E/C/CV keys ("" for others).
func (p *Prog) keyValueSort(key string) Sort {
	parts := strings.Split(key, "|")
	switch parts[0] {
	case "E", "C", "W":
		return Sort(parts[1])
	case "F":
		if t := p.fieldTypeByKey(key); t != nil {
			return p.SortOf(t)
		}
	case "CV":
		if len(parts) >= 4 {
			return Sort(parts[3])
		}
	}
	return ""
}

func (p *Prog) fieldTypeByKey(key string) types.Type {
	parts := strings.Split(key, "|")
	if len(parts) != 3 {
		return nil
	}
	obj := p.Types.Scope().Lookup(parts[1])
	if obj == nil {
		return nil
	}
	st, ok := obj.Type().Underlying().(*types.Struct)
	if !ok {
		return nil
	}
	for i := 0; i < st.NumFields(); i++ {
		if st.Field(i).Name() == parts[2] {
			return st.Field(i).Type()
		}
	}
	return nil
}

// allFieldKeys lists F-keys of all struct types declared in the package.
func (p *Prog) allFieldKeys() []string {
	var out []string
	scope := p.Types.Scope()
	for _, n := range scope.Names() {
		tn, ok := scope.Lookup(n).(*types.TypeName)
		if !ok {
			continue
		}
		st, ok := tn.Type().Underlying().(*types.Struct)
		if !ok {
			continue
		}
		for i := 0; i < st.NumFields(); i++ {
			out = append(out, p.fieldKey(tn.Type(), i))
		}
	}
	return out
}

func intRange(t types.Type) (lo, hi string, ok bool) {
	b, isb := t.Underlying().(*types.Basic)
	if !isb || b.Info()&types.IsInteger == 0 {
		return "", "", false
	}
	switch b.Kind() {
	case types.Int, types.Int64, types.UntypedInt:
		return minInt64Str, maxInt64Str, true
	case types.Int32, types.UntypedRune:
		return "-2147483648", "2147483647", true
	case types.Int16:
		return "-32768", "32767", true
	case types.Int8:
		return "-128", "127", true
	case types.Uint, types.Uint64, types.Uintptr:
		return "0", "18446744073709551615", true
	case types.Uint32:
		return "0", "4294967295", true
	case types.Uint16:
		return "0", "65535", true
	case types.Uint8:
		return "0", "255", true
	}
	return "", "", false
}

func wrapFn(t types.Type) string {
	b, isb := t.Underlying().(*types.Basic)
	if !isb {
		return ""
	}
	switch b.Kind() {
	case types.Int, types.Int64:
		return "wrap64"
	case types.Int32:
		return "wrap32"
	case types.Int16:
		return "wrap16"
	case types.Int8:
		return "wrap8"
	case types.Uint, types.Uint64, types.Uintptr:
		return "wrapu64"
	case types.Uint32:
		return "wrapu32"
	case types.Uint16:
		return "wrapu16"
	case types.Uint8:
		return "wrapu8"
	}
	return ""
}

func isUnsigned(t types.Type) bool {
	b, ok := t.Underlying().(*types.Basic)
	return ok && b.Info()&types.IsUnsigned != 0
}

func isPointerLike(t types.Type) bool {
	switch t.Underlying().(type) {
	case *types.Pointer, *types.Map, *types.Chan, *types.Signature, *types.Interface:
		return true
	}
	return false
}

func derefType(t types.Type) types.Type {
	if p, ok := t.Underlying().(*types.Pointer); ok {
		return p.Elem()
	}
	return nil
}

func fmtKey(parts ...string) string { return strings.Join(parts, "|") }

var _ = fmt.Sprintf
