package main

import "strings"

// inferPatterns picks E-matching triggers for a quantified contract formula: the minimal
// sub-terms headed by select / str_at / uninterpreted functions that mention every bound variable.
func inferPatterns(body string, vars []string) []string {
	type node struct {
		text string
		kids []*node
		head string
	}
	pos := 0
	var parse func() *node
	parse = func() *node {
		for pos < len(body) && body[pos] == ' ' {
			pos++
		}
		if pos >= len(body) {
			return nil
		}
		start := pos
		if body[pos] != '(' {
			for pos < len(body) && body[pos] != ' ' && body[pos] != ')' {
				pos++
			}
			return &node{text: body[start:pos]}
		}
		pos++
		n := &node{}
		first := true
		for pos < len(body) {
			for pos < len(body) && body[pos] == ' ' {
				pos++
			}
			if pos < len(body) && body[pos] == ')' {
				pos++
				break
			}
			k := parse()
			if k == nil {
				break
			}
			if first {
				n.head = k.text
				first = false
			}
			n.kids = append(n.kids, k)
		}
		n.text = body[start:pos]
		return n
	}
	root := parse()
	if root == nil {
		return nil
	}
	mentions := func(n *node, v string) bool {
		// token-wise containment
		t := n.text
		i := 0
		for {
			j := strings.Index(t[i:], v)
			if j < 0 {
				return false
			}
			j += i
			before := j == 0 || strings.ContainsRune(" ()", rune(t[j-1]))
			after := j+len(v) == len(t) || strings.ContainsRune(" ()", rune(t[j+len(v)]))
			if before && after {
				return true
			}
			i = j + len(v)
		}
	}
	all := func(n *node) bool {
		for _, v := range vars {
			if !mentions(n, v) {
				return false
			}
		}
		return true
	}
	okHead := func(h string) bool {
		switch h {
		case "select", "str_at", "str_len", "birth", "dyn_type", "perexec", "s_len", "s_arr", "s_off":
			return true
		}
		return strings.HasPrefix(h, "spec_") || strings.HasPrefix(h, "unbox_") || strings.HasPrefix(h, "box_") || strings.HasPrefix(h, "S_") || strings.HasPrefix(h, "fa_")
	}
	var out []string
	seen := map[string]bool{}
	var walk func(n *node) bool // returns true if a candidate was found inside
	walk = func(n *node) bool {
		if len(n.kids) == 0 || !all(n) {
			return false
		}
		found := false
		for _, k := range n.kids[1:] {
			if walk(k) {
				found = true
			}
		}
		if n.head == "forall" || n.head == "exists" || n.head == "let" || n.head == "!" {
			return found
		}
		if !found && okHead(n.head) {
			if !seen[n.text] {
				seen[n.text] = true
				out = append(out, n.text)
			}
			return true
		}
		return found
	}
	walk(root)
	if len(out) > 4 {
		out = out[:4]
	}
	return out
}
