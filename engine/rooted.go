package main

import (
	"strings"

	"golang.org/x/tools/go/ssa"
)

// Object-precise write sets. The inferred write set of a function is a set of heap keys (struct type, field).
// For many functions every write to a key goes to one object: the one a particular parameter points to
// (p.idx = ... in the methods of *Parser, directly or through callees that are handed the same p). For such a
// (function, key) pair a call changes the field of that one object only, and the caller keeps what it knows
// about all other objects of the type. The analysis is a greatest fixpoint over the static call graph; a key
// written through any other path (another base, a dynamic or external callee that may write it) is not rooted.

const (
	rootTop = -1 // nothing seen yet
	rootBot = -2 // not rooted
)

func (p *Prog) ComputeParamRooted() {
	p.rooted = map[*ssa.Function]map[string]int{}
	for _, fn := range p.FuncList {
		m := map[string]int{}
		for k := range p.ModSets[fn] {
			if strings.HasPrefix(k, "F|") {
				m[k] = rootTop
			}
		}
		p.rooted[fn] = m
	}
	paramIndex := func(fn *ssa.Function, v ssa.Value) int {
		for i, prm := range fn.Params {
			if ssa.Value(prm) == v {
				return i
			}
		}
		return rootBot
	}
	join := func(a, b int) int {
		if a == rootTop {
			return b
		}
		if b == rootTop {
			return a
		}
		if a == b {
			return a
		}
		return rootBot
	}
	changed := true
	for round := 0; changed && round < 50; round++ {
		changed = false
		for _, fn := range p.FuncList {
			cur := p.rooted[fn]
			if len(cur) == 0 {
				continue
			}
			nw := map[string]int{}
			for k := range cur {
				nw[k] = rootTop
			}
			for _, b := range fn.Blocks {
				for _, in := range b.Instrs {
					switch x := in.(type) {
					case *ssa.Store:
						if p.rootedAtLocalAlloc(x.Addr, fn) {
							continue
						}
						for _, k := range p.storeKeys(x.Addr) {
							if _, ok := nw[k]; !ok {
								continue
							}
							r := rootBot
							if fa, ok := x.Addr.(*ssa.FieldAddr); ok {
								r = paramIndex(fn, fa.X)
							}
							nw[k] = join(nw[k], r)
						}
					case ssa.CallInstruction:
						c := x.Common()
						var callee *ssa.Function
						if !c.IsInvoke() {
							switch v := c.Value.(type) {
							case *ssa.Function:
								f := unwrapSynthetic(v)
								if f.Blocks != nil && p.isLocalFn(f) {
									callee = f
								}
							case *ssa.MakeClosure:
								callee = nil // closures: captured variables may alias anything
							case *ssa.Builtin:
								continue
							}
						}
						if callee != nil && len(c.Args) == len(callee.Params) {
							for k := range p.ModSets[callee] {
								if _, ok := nw[k]; !ok {
									continue
								}
								r := rootBot
								if j, ok := p.rooted[callee][k]; ok && j >= 0 && j < len(c.Args) {
									r = paramIndex(fn, c.Args[j])
								} else if ok && j == rootTop {
									r = rootTop
								}
								nw[k] = join(nw[k], r)
							}
							continue
						}
						// any other call: whatever it may write is not rooted
						tmp := &modInfo{direct: KeySet{}, callees: map[*ssa.Function]bool{}, owner: fn}
						p.modCall(tmp, c)
						ks := KeySet{}
						ks.AddAll(tmp.direct)
						for f := range tmp.callees {
							ks.AddAll(p.ModSets[f])
						}
						ks.AddAll(p.resolveDyn(tmp))
						for k := range ks {
							if _, ok := nw[k]; ok {
								nw[k] = rootBot
							}
							if k == "*" {
								for kk := range nw {
									nw[kk] = rootBot
								}
							}
						}
					}
				}
			}
			for k, v := range nw {
				// descending only
				old := cur[k]
				if old == rootBot {
					v = rootBot
				}
				if v != old {
					cur[k] = v
					changed = true
				}
			}
		}
	}
	for _, m := range p.rooted {
		for k, v := range m {
			if v < 0 {
				delete(m, k)
			}
		}
	}
}

// paramRooted: index of the parameter whose object is the only one whose field `key` fn may write.
func (p *Prog) paramRooted(fn *ssa.Function, key string) (int, bool) {
	if fn == nil || p.rooted == nil {
		return 0, false
	}
	i, ok := p.rooted[fn][key]
	return i, ok
}
