package main

import (
	"os"
	"fmt"
	"go/token"
	"go/types"
	"sort"
	"strings"

	"golang.org/x/tools/go/ssa"
)

// ---------- contract lookup ----------

func (e *Enc) calleeName(c *ssa.CallCommon) (name string, kind string, fn *ssa.Function) {
	if c.IsInvoke() {
		recvT := c.Value.Type()
		return e.p.relTypeString(recvT) + "." + c.Method.Name(), "iface", nil
	}
	switch v := c.Value.(type) {
	case *ssa.Builtin:
		return v.Name(), "builtin", nil
	case *ssa.Function:
		f := unwrapSynthetic(v)
		if f.Blocks != nil && e.p.isLocalFn(f) {
			return e.p.FuncName(f), "func", f
		}
		if n := externName(f); externAlias[n] != "" {
			return externAlias[n], "extern", f
		}
		return externName(f), "extern", f
	case *ssa.MakeClosure:
		f := unwrapSynthetic(v.Fn.(*ssa.Function))
		return e.p.FuncName(f), "func", f
	}
	// dynamic
	if n, ok := c.Value.Type().(*types.Named); ok {
		return n.Obj().Name(), "functype", nil
	}
	// a call through a parameter or captured variable of unnamed function type is named after it
	switch v := c.Value.(type) {
	case *ssa.Parameter:
		return "param." + v.Name(), "dynamic", nil
	case *ssa.FreeVar:
		return "param." + v.Name(), "dynamic", nil
	}
	return "func-value", "dynamic", nil
}

func (e *Enc) calleeContract(c *ssa.CallCommon) *FuncContract {
	name, _, _ := e.calleeName(c)
	return e.p.Contracts.Funcs[name]
}

// assignKeys expands one item of an assigns clause to heap keys ("T.f", "param.f", raw keys).
func (e *Enc) assignKeys(fc *FuncContract, item string) []string {
	item = strings.TrimSpace(item)
	if strings.Contains(item, "|") || item == "*" {
		if strings.HasPrefix(item, "M|") {
			return []string{item}
		}
		return []string{item}
	}
	if strings.HasPrefix(item, "ghost.") {
		return []string{"gh|" + item[6:]}
	}
	parts := strings.SplitN(item, ".", 2)
	if len(parts) == 2 {
		// T.f  (type-level)
		if obj := e.p.Types.Scope().Lookup(parts[0]); obj != nil {
			if _, ok := obj.(*types.TypeName); ok {
				if parts[1] == "*" {
					st := obj.Type().Underlying().(*types.Struct)
					var ks []string
					for i := 0; i < st.NumFields(); i++ {
						ks = append(ks, e.p.fieldKey(obj.Type(), i))
					}
					return ks
				}
				return []string{"F|" + parts[0] + "|" + parts[1]}
			}
		}
	}
	e.note("cannot interpret assigns item %q of %s", item, fc.Name)
	return []string{"*"}
}

var externAlias = map[string]string{"strings.ReplaceAll": "strings.Replace"}

// ---------- calls ----------

func (e *Enc) encodeCall(c *ssa.CallCommon, instr ssa.Instruction, pos token.Pos) []Val {
	name, kind, _ := e.calleeName(c)
	if kind == "builtin" {
		return e.encodeBuiltin(c, instr, pos)
	}
	res := e.encodeCall1(c, instr, pos)
	e.noteCall(name, res)
	e.noteArgs(name, c)
	e.notePropagation(name, c, instr, res, pos)
	return res
}

// noteArgs records the arguments of the latest call to a callee named in some lastarg("callee", i)
// (the receiver counts as argument 0 of a method).
func (e *Enc) noteArgs(name string, c *ssa.CallCommon) {
	if !e.p.Contracts.LastArg[name] {
		return
	}
	var args []ssa.Value
	if c.IsInvoke() {
		args = append(args, c.Value)
	}
	args = append(args, c.Args...)
	for i, a := range args {
		v := e.valOf(a)
		if v.Tuple != nil || v.Addr != nil {
			continue
		}
		t := e.coerce(v)
		if t.S == "" {
			continue
		}
		k := fmt.Sprintf("larg|%s|%d|%s", name, i, t.Sort)
		if _, ok := e.heap0[k]; !ok {
			e.heap0[k] = e.fresh("larg0", t.Sort)
		}
		e.cur.heap[k] = t
		if e.lastArgTyp == nil {
			e.lastArgTyp = map[string]types.Type{}
		}
		e.lastArgTyp[fmt.Sprintf("%s|%d", name, i)] = a.Type()
	}
}

// propSite: a call whose failure the function under contract has promised to pass on (propagates).
type propSite struct {
	key    string
	callee string
	ord    int
	pos    token.Pos
	block  *ssa.BasicBlock
	pg     Propagate
}

func isErrorLike(t types.Type) bool {
	if t == nil {
		return false
	}
	if types.Identical(t, types.Universe.Lookup("error").Type()) {
		return true
	}
	if pt, ok := t.(*types.Pointer); ok {
		if n, ok := pt.Elem().(*types.Named); ok && n.Obj().Name() == "Error" {
			return true
		}
	}
	return false
}

// notePropagation sets the ghost flag of a call site listed in a propagates clause when the call
// reports a failure (last result non-nil).
func (e *Enc) notePropagation(name string, c *ssa.CallCommon, instr ssa.Instruction, res []Val, pos token.Pos) {
	if e.fc == nil || len(e.fc.Propagates) == 0 || len(res) == 0 || instr == nil {
		return
	}
	if _, isDefer := instr.(*ssa.Defer); isDefer {
		return
	}
	rs := c.Signature().Results()
	if rs.Len() == 0 || rs.Len() != len(res) || !isErrorLike(rs.At(rs.Len()-1).Type()) {
		return
	}
	last := res[len(res)-1]
	if last.Tuple != nil || last.Addr != nil {
		return
	}
	ord := e.callOrdinal(name, instr)
	for pi, pg := range e.fc.Propagates {
		match := false
		for _, cn := range pg.Callees {
			if (cn == "*" && !e.p.Contracts.IgnorableErr[name]) || cn == name || cn == fmt.Sprintf("%s#%d", name, ord) {
				match = true
			}
		}
		for _, cn := range pg.Except {
			if cn == name || cn == fmt.Sprintf("%s#%d", name, ord) {
				match = false
			}
		}
		if !match {
			continue
		}
		key := fmt.Sprintf("errp|%d|%s#%d", pi, name, ord)
		if e.propSites == nil {
			e.propSites = map[string]*propSite{}
		}
		if _, ok := e.propSites[key]; !ok {
			e.propSites[key] = &propSite{key: key, callee: name, ord: ord, pos: pos, block: instr.Block(), pg: pg}
			e.propOrder = append(e.propOrder, key)
		}
		e.propHit[pi] = true
		t := e.coerce(last)
		e.cur.heap[key] = e.define("errp", Or(e.heapGet(e.cur, key), Ne(t, IntLit(0))))
	}
}

// propagationAtBackEdge: a failure reported inside the loop has made the function return before the
// loop goes round again; the flags of the sites inside the loop are therefore clear at the loop head.
func (e *Enc) propagationAtBackEdge(li *loopInfo, b *ssa.BasicBlock, pos token.Pos) {
	for _, key := range e.propOrder {
		ps := e.propSites[key]
		if !li.blocks[ps.block] {
			continue
		}
		label := ps.pg.Label
		if label == "" {
			label = "a-failure-is-passed-on"
		}
		e.oblige("propagates", fmt.Sprintf("%s#%d/%s/no-further-iteration", ps.callee, ps.ord, label), ps.pos, Not(e.heapGet(e.cur, key)), ps.pg.Props,
			fmt.Sprintf("propagates %s: after a failed call the loop does not go round again", ps.callee))
	}
}

func (e *Enc) propagationAtLoopHead(li *loopInfo) {
	if e.fc == nil || len(e.fc.Propagates) == 0 {
		return
	}
	// sites inside the loop need not have been visited yet: clear every flag whose call lies in the loop
	for _, bb := range e.fn.Blocks {
		if !li.blocks[bb] {
			continue
		}
		for _, in := range bb.Instrs {
			ci, ok := in.(ssa.CallInstruction)
			if !ok {
				continue
			}
			n, kind, _ := e.calleeName(ci.Common())
			if kind == "builtin" {
				continue
			}
			ord := e.callOrdinal(n, in)
			for pi := range e.fc.Propagates {
				key := fmt.Sprintf("errp|%d|%s#%d", pi, n, ord)
				if _, ok := e.cur.heap[key]; ok {
					e.cur.heap[key] = False
				}
			}
		}
	}
}

// checkPropagation: at every return, a site whose call failed implies a non-nil last result.
func (e *Enc) checkPropagation(rets []retRec, envOf func(r retRec) *Env) {
	if e.fc == nil || len(e.fc.Propagates) == 0 {
		return
	}
	sig := e.fn.Signature
	n := sig.Results().Len()
	if n == 0 || !isErrorLike(sig.Results().At(n-1).Type()) {
		e.contractError(e.name, Clause{Kind: "propagates", Line: e.fc.Propagates[0].Line, Src: "propagates"}, fmt.Errorf("the function's last result is not an error"), e.fn.Pos())
		return
	}
	for pi, pg := range e.fc.Propagates {
		if !e.propHit[pi] {
			e.contractError(e.name, Clause{Kind: "propagates", Line: pg.Line, Src: "propagates " + strings.Join(pg.Callees, " ")}, fmt.Errorf("propagates matches no error-returning call in the function"), e.fn.Pos())
		}
	}
	for _, key := range e.propOrder {
		ps := e.propSites[key]
		var cs []Term
		for _, r := range rets {
			if len(r.vals) != n {
				continue
			}
			passed := Ne(e.coerce(r.vals[n-1]), IntLit(0))
			if ps.pg.Unless != nil {
				u, err := envOf(r).Eval(ps.pg.Unless)
				if err != nil {
					e.contractError(e.name, Clause{Kind: "propagates", Line: ps.pg.Line, Src: "unless " + ps.pg.UnlessSrc}, err, ps.pos)
				} else {
					passed = Or(passed, u.T)
				}
			}
			cs = append(cs, Implies(And(r.reach, e.heapGet(r.state, key)), passed))
		}
		label := ps.pg.Label
		if label == "" {
			label = "a-failure-is-passed-on"
		}
		e.oblige("propagates", fmt.Sprintf("%s#%d/%s", ps.callee, ps.ord, label), ps.pos, And(cs...), ps.pg.Props,
			fmt.Sprintf("propagates %s: a failed call makes the function return a failure", ps.callee))
	}
}

// atClausesForModelled: call-site clauses for library functions that have a precise model (they do not
// go through applyCall). Only arg0, arg1, ... are bound.
func (e *Enc) atClausesForModelled(name string, c *ssa.CallCommon, args []Val, argTypes []types.Type, pre *State, pos token.Pos) {
	if e.fc == nil {
		return
	}
	ord := e.callOrdinal(name, instrOf(c, e.curBlock))
	for i, at := range e.fc.At {
		if at.Callee != name && at.Callee != fmt.Sprintf("%s#%d", name, ord) {
			continue
		}
		e.atHit[i] = true
		cenv := e.fnEnv(pre)
		for j, a := range args {
			cenv.vars[fmt.Sprintf("arg%d", j)] = TV{T: e.coerce(a), Typ: argTypes[j]}
		}
		t, err := cenv.Eval(at.Clause.Expr)
		label := at.Clause.Label
		if label == "" {
			label = "a" + itoa(i)
		}
		if err != nil {
			e.contractError(e.name, at.Clause, err, pos)
			continue
		}
		e.oblige("at", name+"/"+label, pos, t.T, at.Clause.Props, "at "+name+" requires "+at.Clause.Src)
	}
}

// noteCall records the first result of the latest call per callee (lastresult) and, for callees
// that some contract counts, the number of calls made by this activation (calls).
func (e *Enc) noteCall(name string, results []Val) {
	if len(results) > 0 && results[0].T.S != "" && results[0].Tuple == nil {
		k := "last|" + name + "|" + string(results[0].T.Sort)
		e.cur.heap[k] = results[0].T
		if e.lastTyp == nil {
			e.lastTyp = map[string]types.Type{}
		}
		e.lastTyp[name] = results[0].Typ
		if _, ok := e.heap0[k]; !ok {
			e.heap0[k] = e.fresh("last0", results[0].T.Sort)
		}
	}
	// further results: lastresult("callee", i)
	for i := 1; i < len(results); i++ {
		if results[i].T.S == "" || results[i].Tuple != nil || results[i].Addr != nil {
			continue
		}
		k := fmt.Sprintf("lastn|%s|%d|%s", name, i, results[i].T.Sort)
		e.cur.heap[k] = results[i].T
		if _, ok := e.heap0[k]; !ok {
			e.heap0[k] = e.fresh("lastn0", results[i].T.Sort)
		}
		if e.lastTyp == nil {
			e.lastTyp = map[string]types.Type{}
		}
		e.lastTyp[fmt.Sprintf("%s|%d", name, i)] = results[i].Typ
	}
	if e.p.Contracts.Counted[name] {
		ck := "cnt|" + name
		if _, ok := e.heap0[ck]; !ok {
			e.heap0[ck] = IntLit(0)
		}
		e.cur.heap[ck] = e.define("cnt", Add(e.heapGet(e.cur, ck), IntLit(1)))
	}
}

// lastSortFor: sort of the first result of callee name, if this function calls it.
func (e *Enc) lastSortFor(name string) (Sort, bool) {
	for _, b := range e.fn.Blocks {
		for _, in := range b.Instrs {
			ci, ok := in.(ssa.CallInstruction)
			if !ok {
				continue
			}
			n, kind, _ := e.calleeName(ci.Common())
			if kind == "builtin" || n != name {
				continue
			}
			res := ci.Common().Signature().Results()
			if res.Len() == 0 {
				return "", false
			}
			return e.sortOf(res.At(0).Type()), true
		}
	}
	return "", false
}

// loopCallNames: callees called in the loop, directly or through callees that may be inlined.
func (e *Enc) loopCallNames(li *loopInfo) map[string]bool {
	out := map[string]bool{}
	var visitFn func(fn *ssa.Function, depth int)
	visitCall := func(c *ssa.CallCommon, depth int) {
		name, kind, fn := e.calleeName(c)
		if kind == "builtin" {
			return
		}
		out[name] = true
		if kind == "func" && fn != nil && depth < 5 {
			if fc := e.p.Contracts.Funcs[name]; fc == nil || fc.Flags["inline"] {
				visitFn(fn, depth+1)
			}
		}
	}
	seen := map[*ssa.Function]bool{}
	visitFn = func(fn *ssa.Function, depth int) {
		if seen[fn] {
			return
		}
		seen[fn] = true
		for _, b := range fn.Blocks {
			for _, in := range b.Instrs {
				if ci, ok := in.(ssa.CallInstruction); ok {
					visitCall(ci.Common(), depth)
				}
			}
		}
	}
	for b := range li.blocks {
		for _, in := range b.Instrs {
			if ci, ok := in.(ssa.CallInstruction); ok {
				visitCall(ci.Common(), 0)
			}
		}
	}
	return out
}

func (e *Enc) encodeCall1(c *ssa.CallCommon, instr ssa.Instruction, pos token.Pos) []Val {
	name, kind, fn := e.calleeName(c)
	// arguments (receiver first for invoke)
	var args []Val
	var argTypes []types.Type
	if c.IsInvoke() {
		args = append(args, e.valOf(c.Value))
		argTypes = append(argTypes, c.Value.Type())
		e.assume(Ne(e.coerce(args[0]), IntLit(0))) // method call on a nil interface: nil dereference class, assumed away
	}
	for _, a := range c.Args {
		args = append(args, e.valOf(a))
		argTypes = append(argTypes, a.Type())
	}
	if mc, ok := c.Value.(*ssa.MakeClosure); ok {
		_ = mc
	}
	sig := c.Signature()
	// library functions that are another one with an argument fixed are treated as that one, so that contracts do
	// not depend on which spelling the code uses: strings.ReplaceAll(s, a, b) is strings.Replace(s, a, b, -1)
	if kind == "extern" && fn != nil && externName(fn) == "strings.ReplaceAll" {
		args = append(args, Val{T: IntLit(-1), Typ: types.Typ[types.Int]})
		argTypes = append(argTypes, types.Typ[types.Int])
	}
	if allowed, ok := e.p.Contracts.Callers[name]; ok {
		okc := false
		for _, a := range allowed {
			if a == e.name {
				okc = true
			}
		}
		if !okc {
			e.oblige("callers", name, pos, False, e.p.Contracts.CallersProps[name], "only "+strings.Join(allowed, ", ")+" may call "+name)
		}
	}
	if kind == "func" && fn != nil && fn.Signature.Recv() != nil && len(c.Args) > 0 && !c.IsInvoke() {
		if _, isPtr := fn.Signature.Recv().Type().Underlying().(*types.Pointer); isPtr {
			e.nilDerefObligation(c.Args[0], e.coerce(args[0]), pos, "receiver of "+name)
		}
	}
	if kind == "iface" && fileEffect[name] {
		e.effectObligation(name, pos)
	}
	if kind == "extern" && fn != nil && len(args) > 0 {
		e.externMutationObligation(name, fn, args[0], c.Args[0], pos)
		e.sortedMemoryObligation(name, c.Args[0], pos)
	}
	// precise models of a few library functions
	if kind == "extern" {
		if m, ok := externModels[name]; ok {
			pre := e.cur.clone()
			if res, handled := m(e, c, args, pos); handled {
				e.atClausesForModelled(name, c, args, argTypes, pre, pos)
				return res
			}
		}
		e.effectObligation(name, pos)
	}
	fc := e.p.Contracts.Funcs[name]
	if kind == "functype" || kind == "dynamic" {
		if dn, dfc := e.p.dispatchContractFor(c.Value.Type()); dfc != nil {
			return e.applyDispatch(dn, dfc, c, instr, sig, args, argTypes, pos)
		}
	}
	if fc == nil && kind == "dynamic" {
		e.note("call through function value without protocol contract")
	}
	if kind == "func" && fn != nil && (fc == nil || fc.Flags["inline"]) {
		if _, isDefer := instr.(*ssa.Defer); !isDefer {
			if res, ok := e.tryInline(fn, c, args); ok {
				return res
			}
		}
	}
	return e.applyCall(name, kind, fn, fc, c, sig, args, argTypes, pos)
}

// paramNames for a contract application.
func (e *Enc) contractParamNames(fc *FuncContract, fn *ssa.Function, sig *types.Signature, invoke bool) (params, results []string) {
	if fc != nil && len(fc.Params) > 0 {
		params = fc.Params
	} else if fn != nil && fn.Blocks != nil {
		for _, p := range fn.Params {
			params = append(params, p.Name())
		}
	} else {
		if invoke || sig.Recv() != nil {
			params = append(params, "recv")
		}
		for i := 0; i < sig.Params().Len(); i++ {
			n := sig.Params().At(i).Name()
			if n == "" || n == "_" {
				n = fmt.Sprintf("a%d", i)
			}
			params = append(params, n)
		}
	}
	if fc != nil && len(fc.Results) > 0 {
		results = fc.Results
	} else {
		for i := 0; i < sig.Results().Len(); i++ {
			n := sig.Results().At(i).Name()
			if n == "" || n == "_" {
				n = fmt.Sprintf("r%d", i)
			}
			results = append(results, n)
		}
	}
	return
}

func (e *Enc) applyCall(name, kind string, fn *ssa.Function, fc *FuncContract, c *ssa.CallCommon, sig *types.Signature, args []Val, argTypes []types.Type, pos token.Pos) []Val {
	pnames, rnames := e.contractParamNames(fc, fn, sig, c.IsInvoke())
	pre := e.cur.clone()
	nowAtCall := e.cur.now
	env := &Env{e: e, vars: map[string]TV{}, state: pre, old: pre, now0: nowAtCall}
	for i, a := range args {
		if i < len(pnames) {
			env.vars[pnames[i]] = TV{T: e.coerce(a), Typ: argTypes[i]}
		}
	}
	// closure free variables of the callee are visible by name
	if mc, ok := c.Value.(*ssa.MakeClosure); ok && fn != nil {
		for i, b := range mc.Bindings {
			if i < len(fn.FreeVars) {
				// a captured variable: the name denotes its content (as inside the closure's own contract)
				if bv := e.valOf(b); bv.Addr != nil && bv.Addr.Kind == "cv" {
					env.vars[fn.FreeVars[i].Name()] = TV{T: Select(e.heapGet(pre, bv.Addr.Key), bv.Addr.Base), Typ: bv.Addr.Elem}
					continue
				}
				env.vars[fn.FreeVars[i].Name()] = TV{T: e.termOf(b), Typ: b.Type()}
			}
		}
	}
	if fc != nil {
		for i, cl := range fc.Req {
			t, err := env.Eval(cl.Expr)
			label := cl.Label
			if label == "" {
				label = "r" + itoa(i)
			}
			if err != nil {
				e.contractError(name, cl, err, pos)
				continue
			}
			e.oblige("pre", name+"/"+label, pos, t.T, cl.Props, "requires "+cl.Src)
		}
	}
	// caller-side call-site obligations:  at <callee> requires ...
	classified := 0
	if e.fc != nil {
		ord := e.callOrdinal(name, instrOf(c, e.curBlock))
		for i, at := range e.fc.At {
			if at.Callee != name && at.Callee != fmt.Sprintf("%s#%d", name, ord) {
				continue
			}
			e.atHit[i] = true
			classified++
			cenv := e.fnEnv(pre)
			for k, v := range env.vars {
				if _, clash := cenv.vars[k]; !clash {
					cenv.vars[k] = v
				}
				cenv.vars["callee."+k] = v
			}
			// the function value itself, for calls through function values
			if !c.IsInvoke() {
				if _, isBuiltin := c.Value.(*ssa.Builtin); !isBuiltin {
					cenv.vars["callee"] = TV{T: e.termOf(c.Value), Typ: c.Value.Type()}
				}
			}
			// callee parameters are also available as arg0, arg1, ...
			for j, a := range args {
				cenv.vars[fmt.Sprintf("arg%d", j)] = TV{T: e.coerce(a), Typ: argTypes[j]}
			}
			t, err := cenv.Eval(at.Clause.Expr)
			label := at.Clause.Label
			if label == "" {
				label = "a" + itoa(i)
			}
			if err != nil {
				e.contractError(e.name, at.Clause, err, pos)
				continue
			}
			e.oblige("at", name+"/"+label, pos, t.T, at.Clause.Props, "at "+name+" requires "+at.Clause.Src)
		}
	}

	// declared sinks: a call that no clause of the calling function classifies
	if props, ok := e.p.Contracts.Sinks[name]; ok && classified == 0 && e.prefix == "" && !(e.fc != nil && e.fc.Flags["not-a-template-node"]) {
		e.oblige("sink", name, pos, False, props, "call to the output sink "+name+" is not classified by any `at` clause of "+e.name)
	}
	// a call from execution code into the compile API (where execution reachability is cut) needs a frame contract
	if e.frameOn() && fn != nil && fn.Blocks != nil && e.p.isCompileEntry(fn) {
		if fc == nil || !fc.HasAssigns {
			e.oblige("frame", "call/"+name+"/no-assigns-contract", pos, False, []string{"C04", "C05"}, "compile API called during execution without an assigns contract")
		} else {
			for _, a := range fc.Assigns {
				for _, k := range e.assignKeysTyped(fc, fn, a) {
					parts := strings.Split(k, "|")
					ok := False
					if parts[0] == "F" && (e.regionOfStruct(parts[1]) == "perexec" || e.regionOfStruct(parts[1]) == "scratch") {
						ok = True
					}
					e.oblige("frame", "call/"+name+"/"+k, pos, ok, []string{"C04", "C05"}, "callee "+name+" may write "+k+" of an object that is not fresh")
				}
			}
		}
	}
	// havoc
	var mod KeySet
	type preciseAssign struct {
		key  string
		base Term
	}
	var precise []preciseAssign
	if fc != nil && fc.HasAssigns {
		mod = KeySet{}
		for _, a := range fc.Assigns {
			// param.field (or a longer path x.y.field): only that object's field
			if li := strings.LastIndex(strings.TrimSpace(a), "."); li > 0 {
				at := strings.TrimSpace(a)
				parts := []string{at[:li], at[li+1:]}
				pv, ok := env.vars[parts[0]]
				if !ok && strings.Contains(parts[0], ".") {
					if px, perr := ParseExpr(parts[0]); perr == nil {
						if tv, everr := env.Eval(px); everr == nil && tv.Typ != nil {
							pv, ok = tv, true
						}
					}
				}
				if ok && pv.Typ != nil {
					if pt, ok := pv.Typ.Underlying().(*types.Pointer); ok {
						if st, ok := pt.Elem().Underlying().(*types.Struct); ok {
							found := false
							for fi := 0; fi < st.NumFields(); fi++ {
								if st.Field(fi).Name() == parts[1] {
									precise = append(precise, preciseAssign{e.p.fieldKey(pt.Elem(), fi), pv.T})
									found = true
								}
							}
							if found {
								continue
							}
						}
					}
				}
			}
			for _, k := range e.assignKeys(fc, a) {
				mod.Add(k)
			}
		}
	} else {
		mod = e.callMod(c)
		// object-precise write sets: a key the callee writes only on the object one of its parameters points to
		if kind == "func" && fn != nil && !c.IsInvoke() && len(args) == len(fn.Params) {
			for _, k := range mod.Sorted() {
				if j, ok := e.p.paramRooted(fn, k); ok && j < len(args) {
					delete(mod, k)
					precise = append(precise, preciseAssign{k, e.coerce(args[j])})
				}
			}
		}
	}
	// an object of this function that is handed to the callee must satisfy its type's invariant now (the
	// callee assumes it); from here on it is an ordinary object whose invariant callees preserve
	e.completeHandedOver(c, pos)
	e.unbalancedCallee = fc != nil && fc.Flags["unbalanced"]
	e.havocForCall(mod, instrOf(c, e.curBlock), args)
	defer func() { e.unbalancedCallee = false }()
	for _, pa := range precise {
		old := e.heapGet(e.cur, pa.key)
		fv := e.fresh("assigned", arrayElemSort(old.Sort))
		e.heapSet(e.cur, pa.key, e.define("H_"+pa.key, Store(old, pa.base, fv)))
		if ft := e.p.fieldTypeByKey(pa.key); ft != nil {
			e.assume(e.typeInv(fv, ft, e.cur.now))
		}
		nwv := e.heapGet(e.cur, pa.key)
		e.monotoneAssume(pa.key, old, nwv)
	}
	{
		// the callee may allocate: the clock advances by an unknown amount
		nn := e.fresh("now", SInt)
		e.assert(Ge(nn, e.cur.now))
		e.cur.now = nn
	}
	// results
	var results []Val
	post := &Env{e: e, vars: map[string]TV{}, state: e.cur, old: pre, now0: nowAtCall, opaqueLast: map[string]Term{}}
	for k, v := range env.vars {
		post.vars[k] = v
	}
	for i := 0; i < sig.Results().Len(); i++ {
		rt := sig.Results().At(i).Type()
		var r Term
		if fc != nil && fc.Pure {
			// a pure function: its result is an uninterpreted function of its arguments
			var as []Term
			for _, a := range args {
				as = append(as, e.coerce(a))
			}
			r = e.define("ret_"+sanitize(lastSeg(name)), e.pureApp(fc, name, i, as, e.sortOf(rt)))
		} else {
			r = e.fresh("ret_"+sanitize(lastSeg(name)), e.sortOf(rt))
		}
		e.assume(e.typeInv(r, rt, e.cur.now))
		results = append(results, Val{T: r, Typ: rt})
		if i < len(rnames) {
			post.vars[rnames[i]] = TV{T: r, Typ: rt}
		}
		post.vars[fmt.Sprintf("r%d", i)] = TV{T: r, Typ: rt}
	}
	if fc != nil {
		for _, cl := range fc.Ens {
			if strings.Contains(cl.Src, "calls(\"") || strings.HasPrefix(cl.Label, "body-") {
				continue // about the callee's own calls or locals: says nothing to the caller
			}
			t, err := post.Eval(cl.Expr)
			if err != nil {
				e.contractError(name, cl, err, pos)
				continue
			}
			e.assume(t.T)
		}
		_ = 0
		for _, gu := range fc.GhostUpd {
			t, err := post.inState(pre).Eval(gu.Expr)
			if err != nil {
				e.note("ghostset %s in %s: %v", gu.Name, name, err)
				continue
			}
			e.heapSet(e.cur, "gh|"+gu.Name, t.T)
		}
	}
	// a package function that is checked against the protocol of a function type or interface method it is a
	// value of (refines/...) keeps that protocol's promises when it is called directly as well
	if kind == "func" && fn != nil && !c.IsInvoke() {
		for _, rf := range e.p.refinementsOf(fn) {
			renv := &Env{e: e, vars: map[string]TV{}, state: e.cur, old: pre, now0: nowAtCall, opaqueLast: map[string]Term{}}
			for i, pn := range rf.fc.Params {
				if i < len(args) {
					renv.vars[pn] = TV{T: e.coerce(args[i]), Typ: argTypes[i]}
				}
			}
			for i, r := range results {
				if i < len(rf.fc.Results) {
					renv.vars[rf.fc.Results[i]] = TV{T: r.T, Typ: r.Typ}
				}
				renv.vars[fmt.Sprintf("r%d", i)] = TV{T: r.T, Typ: r.Typ}
			}
			penv := &Env{e: e, vars: renv.vars, state: pre, old: pre, now0: nowAtCall}
			for i, cl := range rf.fc.Req {
				if strings.HasPrefix(cl.Label, "assume-") {
					continue
				}
				t, err := penv.Eval(cl.Expr)
				if err != nil {
					continue
				}
				label := cl.Label
				if label == "" {
					label = "r" + itoa(i)
				}
				e.oblige("pre", name+"/"+rf.name+"/"+label, pos, t.T, cl.Props, "requires (protocol of "+rf.name+") "+cl.Src)
			}
			for _, cl := range rf.fc.Ens {
				if strings.HasPrefix(cl.Label, "assume-") || strings.HasPrefix(cl.Label, "body-") {
					continue
				}
				t, err := renv.Eval(cl.Expr)
				if err != nil {
					continue
				}
				e.assume(t.T)
			}
		}
	}
	e.reassumeInvariants()
	for _, r := range results {
		e.assumeResultInv(r.T, r.Typ, nowAtCall)
	}
	// a callee flagged returns-fresh hands back a new object: until it escapes it behaves like a local allocation
	if fc != nil && fc.Flags["returns-fresh"] && len(results) > 0 {
		if cv, ok := instrOf(c, e.curBlock).(ssa.Value); ok && cv != nil {
			if pt, ok := results[0].Typ.Underlying().(*types.Pointer); ok {
				e.assume(And(Ne(results[0].T, IntLit(0)), Ge(Birth(results[0].T), nowAtCall)))
				e.allocs = append(e.allocs, allocRec{val: cv, ref: results[0].T, typ: pt.Elem(), block: e.curBlock, complete: true})
			}
		}
	}
	return results
}

func lastSeg(s string) string {
	if i := strings.LastIndexAny(s, "./)"); i >= 0 && i+1 < len(s) {
		return s[i+1:]
	}
	return s
}

func instrOf(c *ssa.CallCommon, b *ssa.BasicBlock) ssa.Instruction {
	if b == nil {
		return nil
	}
	for _, in := range b.Instrs {
		if ci, ok := in.(ssa.CallInstruction); ok && ci.Common() == c {
			return in
		}
	}
	return nil
}

func (e *Enc) contractError(name string, cl Clause, err error, pos token.Pos) {
	e.note("contract of %s does not apply: %s: %v", name, cl.Src, err)
	e.obligeNamed(e.name+"/contract-applies/"+name+"/"+itoa(cl.Line), "contract-applies", name, pos, False, cl.Props, cl.Kind+" "+cl.Src+": "+err.Error())
}

// havocForCall replaces the versions of all keys in mod; objects allocated by this
// function that have not escaped before the call keep their contents.
func (e *Enc) havocForCall(mod KeySet, at ssa.Instruction, args []Val) {
	keys := e.expandKeys(mod)
	if len(keys) == 0 {
		return
	}
	unesc := e.unescapedAllocs(at)
	nowBefore := e.cur.now
	pre := e.cur.clone()
	for _, k := range keys {
		old, nw := e.havocKey(e.cur, k)
		parts := strings.Split(k, "|")
		e.monotoneAssume(k, old, nw)
		e.initOnlyAssume(k, old, nw, nowBefore)
		if parts[0] == "E" {
			e.privateSliceFrame(k, old, nw, nil)
		}
		if parts[0] == "MH" || parts[0] == "MV" {
			for _, ma := range e.mapAllocs {
				if (mapHasKey(ma.key) == k || mapValKey(ma.key) == k) && ma.block.Dominates(at.Block()) && !e.mapEscapedBefore(ma.val, at) {
					e.assert(Eq(Select(nw, ma.ref), Select(old, ma.ref)))
				}
			}
		}
		for _, a := range unesc {
			switch parts[0] {
			case "F":
				if _, isStruct := a.typ.Underlying().(*types.Struct); isStruct && e.p.structKeyName(a.typ) == parts[1] {
					e.assert(Eq(Select(nw, a.ref), Select(old, a.ref)))
				}
			case "CV":
				if a.instr != nil && e.p.cvKeyMaybe(a.instr) == k {
					e.assert(Eq(Select(nw, a.ref), Select(old, a.ref)))
				}
			case "E":
				if at, isArr := a.typ.Underlying().(*types.Array); isArr && e.p.elemKey(at.Elem()) == k {
					e.assert(Eq(Select(nw, a.ref), Select(old, a.ref)))
				}
				// in-bounds elements of append-only slices held in fields of an unescaped object
				if _, isStruct := a.typ.Underlying().(*types.Struct); isStruct && e.p.AppendOnly[k] {
					e.appendOnlyFrame(pre, k, a.typ, a.ref, old, nw)
				}
			}
		}
		// ... and of the objects this function was handed (same assumption: nobody appends to a stale
		// shorter header of the same backing array)
		if parts[0] == "E" && e.p.AppendOnly[k] {
			for _, prm := range e.fn.Params {
				if pt, ok := prm.Type().Underlying().(*types.Pointer); ok {
					if _, isStruct := pt.Elem().Underlying().(*types.Struct); isStruct {
						e.appendOnlyFrame(pre, k, pt.Elem(), e.termOf(prm), old, nw)
					}
				}
			}
		}
	}
}

// appendOnlyFrame: the in-bounds elements of the append-only slices held in fields of object ref
// (a struct of type typ) are the same in element heap versions old and nw.
func (e *Enc) appendOnlyFrame(pre *State, k string, typ types.Type, ref Term, old, nw Term) {
	st := typ.Underlying().(*types.Struct)
	if _, local, _ := e.p.structSortName(typ); !local {
		return
	}
	for fi := 0; fi < st.NumFields(); fi++ {
		sl, ok := st.Field(fi).Type().Underlying().(*types.Slice)
		if !ok || e.p.elemKey(sl.Elem()) != k {
			continue
		}
		h := Select(e.heapGet(pre, e.p.fieldKey(typ, fi)), ref)
		// absolute index, arithmetic-free triggers on either heap version
		q := fmt.Sprintf("(forall ((qj Int)) (! (=> (and (>= qj (s_off %s)) (< qj (+ (s_off %s) (s_len %s)))) (= (select (select %s (s_arr %s)) qj) (select (select %s (s_arr %s)) qj))) :pattern ((select (select %s (s_arr %s)) qj)) :pattern ((select (select %s (s_arr %s)) qj))))",
			h.S, h.S, h.S, nw.S, h.S, old.S, h.S, nw.S, h.S, old.S, h.S)
		e.assert(mk(SBool, q))
	}
}

func (p *Prog) cvKeyMaybe(a *ssa.Alloc) string {
	et := a.Type().Underlying().(*types.Pointer).Elem()
	switch et.Underlying().(type) {
	case *types.Array:
		return ""
	case *types.Struct:
		if _, local, _ := p.structSortName(et); local {
			return ""
		}
	}
	if p.promotable(a) {
		return ""
	}
	return p.cvKey(a)
}

// unescapedAllocs: allocations of this function none of whose escaping uses can have executed before `at`.
func (e *Enc) unescapedAllocs(at ssa.Instruction) []allocRec {
	if at == nil {
		return nil
	}
	var out []allocRec
	atBlock := at.Block()
	for _, a := range e.allocs {
		if !a.block.Dominates(atBlock) {
			continue
		}
		escaped := false
		var visit func(v ssa.Value, depth int)
		seen := map[ssa.Value]bool{}
		visit = func(v ssa.Value, depth int) {
			if escaped || seen[v] || depth > 6 {
				return
			}
			seen[v] = true
			refs := v.Referrers()
			if refs == nil {
				return
			}
			for _, r := range *refs {
				if escaped {
					return
				}
				switch x := r.(type) {
				case *ssa.DebugRef:
					continue
				case *ssa.FieldAddr:
					if x.X == v {
						visit(x, depth+1)
					}
					continue
				case *ssa.IndexAddr:
					if x.X == v {
						visit(x, depth+1)
					}
					continue
				case *ssa.UnOp:
					continue // load
				case *ssa.Store:
					if x.Addr == v {
						continue
					}
				case *ssa.Slice:
					// slicing an array: the slice aliases it
				}
				// any other use is an escape; did it possibly happen before `at`?
				rb := r.Block()
				if rb == atBlock {
					if instrIndex(rb, r) <= instrIndex(rb, at) || e.reachBlocks[rb][rb] { // the call at `at` itself hands the object to the callee
						escaped = true
					}
				} else if e.reachBlocks[rb][atBlock] {
					escaped = true
				}
			}
		}
		visit(a.val, 0)
		if !escaped {
			out = append(out, a)
		}
	}
	return out
}

// mapEscapedBefore: can a use that hands the map out (anything but updating, reading, ranging, len, delete)
// have executed before, or be, the instruction `at`?
func (e *Enc) mapEscapedBefore(m *ssa.MakeMap, at ssa.Instruction) bool {
	refs := m.Referrers()
	if refs == nil {
		return false
	}
	atBlock := at.Block()
	for _, r := range *refs {
		switch x := r.(type) {
		case *ssa.DebugRef:
			continue
		case *ssa.MapUpdate:
			if x.Map == m && x.Key != ssa.Value(m) && x.Value != ssa.Value(m) {
				continue
			}
		case *ssa.Lookup:
			if x.X == m && x.Index != ssa.Value(m) {
				continue
			}
		case *ssa.Range:
			continue
		case *ssa.Call:
			if b, ok := x.Call.Value.(*ssa.Builtin); ok && (b.Name() == "len" || b.Name() == "delete") {
				continue
			}
		}
		rb := r.Block()
		if rb == nil {
			return true
		}
		if rb == atBlock {
			if instrIndex(rb, r) <= instrIndex(rb, at) || e.reachBlocks[rb][rb] {
				return true
			}
		} else if e.reachBlocks[rb][atBlock] {
			return true
		}
	}
	return false
}

func instrIndex(b *ssa.BasicBlock, in ssa.Instruction) int {
	for i, x := range b.Instrs {
		if x == in {
			return i
		}
	}
	return -1
}

// ---------- builtins ----------

func (e *Enc) encodeBuiltin(c *ssa.CallCommon, instr ssa.Instruction, pos token.Pos) []Val {
	b := c.Value.(*ssa.Builtin)
	switch b.Name() {
	case "len":
		x := e.termOf(c.Args[0])
		switch x.Sort {
		case SStr:
			return []Val{{T: StrLen(x)}}
		case SSlice:
			return []Val{{T: SliceLen(x)}}
		}
		if mt, ok := c.Args[0].Type().Underlying().(*types.Map); ok {
			l := e.define("maplen", e.mapLen(e.cur, mt, x))
			e.assume(Ge(l, IntLit(0)))
			return []Val{{T: Ite(Eq(x, IntLit(0)), IntLit(0), l)}}
		}
		if pt, ok := c.Args[0].Type().Underlying().(*types.Pointer); ok {
			if at, ok := pt.Elem().Underlying().(*types.Array); ok {
				return []Val{{T: IntLit(at.Len())}}
			}
		}
		if at, ok := c.Args[0].Type().Underlying().(*types.Array); ok {
			return []Val{{T: IntLit(at.Len())}}
		}
		r := e.fresh("len", SInt)
		e.assume(Ge(r, IntLit(0)))
		return []Val{{T: r}}
	case "cap":
		x := e.termOf(c.Args[0])
		if x.Sort == SSlice {
			return []Val{{T: SliceCap(x)}}
		}
		r := e.fresh("cap", SInt)
		e.assume(Ge(r, IntLit(0)))
		return []Val{{T: r}}
	case "append":
		return e.encodeAppend(c, instr, pos)
	case "copy":
		dst := e.termOf(c.Args[0])
		if st, ok := c.Args[0].Type().Underlying().(*types.Slice); ok {
			e.frameObligation(instr, "copy", e.p.elemKey(st.Elem()), SliceArr(dst), pos)
			e.havocKey(e.cur, e.p.elemKey(st.Elem()))
		}
		r := e.fresh("copied", SInt)
		e.assume(And(Ge(r, IntLit(0)), Le(r, SliceLen(dst))))
		return []Val{{T: r}}
	case "delete":
		m := e.termOf(c.Args[0])
		k := e.termOf(c.Args[1])
		mt := c.Args[0].Type().Underlying().(*types.Map)
		mk := e.p.mapKey(mt)
		e.frameObligation(instr, "mapdelete", mk, m, pos)
		e.writersObligation(mk, m, pos)
		if e.fc != nil {
			for i, at := range e.fc.At {
				if at.Callee != "delete" {
					continue
				}
				e.atHit[i] = true
				env := e.fnEnv(e.cur)
				env.vars["m"] = TV{T: m, Typ: c.Args[0].Type()}
				env.vars["k"] = TV{T: k, Typ: c.Args[1].Type()}
				label := at.Clause.Label
				if label == "" {
					label = "a" + itoa(i)
				}
				t, err := env.Eval(at.Clause.Expr)
				if err != nil {
					e.contractError(e.name, at.Clause, err, pos)
					continue
				}
				e.oblige("at", "delete/"+label, pos, t.T, at.Clause.Props, "at delete requires "+at.Clause.Src)
			}
		}
		hk := mapHasKey(mk)
		h := e.heapGet(e.cur, hk)
		e.heapSet(e.cur, hk, e.define("H_mh", Store(h, m, Store(Select(h, m), k, False))))
		return nil
	case "panic":
		if !e.fnFlag("maypanic") {
			e.oblige("panic", "", pos, False, nil, "explicit panic must be unreachable")
		}
		return nil
	case "print", "println":
		return nil
	case "min", "max":
		a := e.termOf(c.Args[0])
		for _, x := range c.Args[1:] {
			bt := e.termOf(x)
			if b.Name() == "min" {
				a = Ite(Lt(a, bt), a, bt)
			} else {
				a = Ite(Gt(a, bt), a, bt)
			}
		}
		return []Val{{T: a}}
	}
	e.note("unsupported builtin %s", b.Name())
	sig := c.Signature()
	var out []Val
	for i := 0; i < sig.Results().Len(); i++ {
		out = append(out, Val{T: e.fresh("builtin", e.sortOf(sig.Results().At(i).Type()))})
	}
	return out
}

func (e *Enc) encodeAppend(c *ssa.CallCommon, instr ssa.Instruction, pos token.Pos) []Val {
	s := e.termOf(c.Args[0])
	st, ok := c.Args[0].Type().Underlying().(*types.Slice)
	if !ok {
		return []Val{{T: e.fresh("app", SSlice)}}
	}
	ek := e.p.elemKey(st.Elem())
	var addLen Term
	var srcStr, srcSlice Term
	isStr := false
	if len(c.Args) > 1 {
		y := e.termOf(c.Args[1])
		if y.Sort == SStr {
			addLen = StrLen(y)
			srcStr = y
			isStr = true
		} else {
			addLen = SliceLen(y)
			srcSlice = y
		}
	} else {
		addLen = IntLit(0)
	}
	_ = srcStr
	_ = isStr
	// caller-side obligations on appended elements:  at append[T] requires P(elem)
	if e.fc != nil && srcSlice.S != "" {
		want := "append[" + e.p.relTypeString(st.Elem()) + "]"
		ord := e.appendOrdinal(st.Elem(), instr)
		for i, at := range e.fc.At {
			if at.Callee != want && at.Callee != fmt.Sprintf("%s#%d", want, ord) {
				continue
			}
			e.atHit[i] = true
			env := e.fnEnv(e.cur)
			elem0 := Select(Select(e.heapGet(e.cur, ek), SliceArr(srcSlice)), SliceOff(srcSlice))
			env.vars["elem"] = TV{T: e.define("appelem", elem0), Typ: st.Elem()}
			label := at.Clause.Label
			if label == "" {
				label = "a" + itoa(i)
			}
			t, err := env.Eval(at.Clause.Expr)
			if err != nil {
				e.contractError(e.name, at.Clause, err, pos)
				continue
			}
			// exactly one element must be appended for the clause to cover the append
			e.oblige("at", want+"/"+label, pos, And(Eq(addLen, IntLit(1)), t.T), at.Clause.Props, "at "+want+" requires "+at.Clause.Src)
		}
	}
	newLen := e.define("applen", Add(SliceLen(s), addLen))
	inPlace := e.fresh("app_inplace", SBool)
	e.assert(Implies(inPlace, Le(newLen, SliceCap(s))))
	e.assert(Implies(Gt(newLen, SliceCap(s)), Not(inPlace)))
	// in-place appends write the shared backing array: frame obligation
	e.frameObligationGuarded(instr, "append", ek, SliceArr(s), pos, And(inPlace, Gt(addLen, IntLit(0))))
	r := e.fresh("app", SSlice)
	freshArr := e.newRef("apparr")
	oldE := e.heapGet(e.cur, ek)
	newE := e.fresh("H_"+sanitize(ek), oldE.Sort)
	e.heapSet(e.cur, ek, newE)
	// result header
	e.assert(Eq(SliceLen(r), newLen))
	e.assert(Ge(SliceCap(r), newLen))
	e.assert(Eq(SliceArr(r), Ite(inPlace, SliceArr(s), freshArr)))
	e.assert(Eq(SliceOff(r), Ite(inPlace, SliceOff(s), IntLit(0))))
	e.assert(Implies(inPlace, Eq(SliceCap(r), SliceCap(s))))
	// contents: old elements preserved, new ones copied; other arrays untouched
	q := func(body string) Term { return mk(SBool, body) }
	arrR, offR := SliceArr(r).S, SliceOff(r).S
	e.assert(q(fmt.Sprintf("(forall ((qa Int)) (! (=> (and (not (= qa %s))) (= (select %s qa) (select %s qa))) :pattern ((select %s qa))))", arrR, newE.S, oldE.S, newE.S)))
	// (absolute positions in the result's backing array: triggers without arithmetic)
	e.assert(q(fmt.Sprintf("(forall ((qj Int)) (! (=> (and (>= qj %s) (< qj (+ %s %s))) (= (select (select %s %s) qj) (select (select %s %s) (+ %s (- qj %s))))) :pattern ((select (select %s %s) qj))))",
		offR, offR, SliceLen(s).S, newE.S, arrR, oldE.S, SliceArr(s).S, SliceOff(s).S, offR, newE.S, arrR)))
	if srcSlice.S != "" {
		e.assert(q(fmt.Sprintf("(forall ((qj Int)) (! (=> (and (>= qj (+ %s %s)) (< qj (+ %s %s %s))) (= (select (select %s %s) qj) (select (select %s %s) (+ %s (- qj (+ %s %s)))))) :pattern ((select (select %s %s) qj))))",
			offR, SliceLen(s).S, offR, SliceLen(s).S, SliceLen(srcSlice).S, newE.S, arrR, oldE.S, SliceArr(srcSlice).S, SliceOff(srcSlice).S, offR, SliceLen(s).S, newE.S, arrR)))
		// in-place: elements of the same array outside the written window are unchanged
	}
	e.assert(q(fmt.Sprintf("(=> %s (forall ((qi Int)) (! (=> (or (< qi (+ %s %s)) (>= qi (+ %s %s))) (= (select (select %s %s) qi) (select (select %s %s) qi))) :pattern ((select (select %s %s) qi)))))",
		inPlace.S, SliceOff(s).S, SliceLen(s).S, SliceOff(s).S, newLen.S, newE.S, arrR, oldE.S, arrR, newE.S, arrR)))
	return []Val{{T: r, Typ: c.Args[0].Type()}}
}

// ---------- loops ----------

func (e *Enc) loopEnv(li *loopInfo, st *State, bind map[ssa.Value]Val) *Env {
	env := e.fnEnv(st)
	// phis of this header (and enclosing loops) by source name
	for _, in := range li.header.Instrs {
		phi, ok := in.(*ssa.Phi)
		if !ok {
			break
		}
		v, ok := bind[phi]
		if !ok {
			v = e.vals[phi]
		}
		if phi.Comment != "" {
			env.vars[phi.Comment] = TV{T: v.T, Typ: phi.Type()}
			if _, ok := env.vars["cur_"+phi.Comment]; ok {
				env.vars["cur_"+phi.Comment] = TV{T: v.T, Typ: phi.Type()}
			}
		}
		env.vars["$"+phi.Name()] = TV{T: v.T, Typ: phi.Type()}
	}
	// `rangeindex` is the hidden index of a range loop (-1 before the first element). A counting loop
	// `for i := 0; ...; i++` over the same elements has no such variable: there it stands for i - 1, so that an
	// invariant written for one form of the loop also reads on the other.
	hasRI := false
	for _, in := range li.header.Instrs {
		if phi, ok := in.(*ssa.Phi); ok && phi.Comment == "rangeindex" {
			hasRI = true
		}
	}
	if !hasRI {
		delete(env.vars, "rangeindex")
		for _, in := range li.header.Instrs {
			phi, ok := in.(*ssa.Phi)
			if !ok {
				break
			}
			if !countingPhi(phi, li) {
				continue
			}
			v, ok := bind[phi]
			if !ok {
				v = e.vals[phi]
			}
			env.vars["rangeindex"] = TV{T: Sub(v.T, IntLit(1)), Typ: phi.Type()}
			break
		}
	}
	return env
}

// countingPhi: an integer loop variable that starts at the constant 0 and is incremented by one on every back edge.
func countingPhi(phi *ssa.Phi, li *loopInfo) bool {
	if b, ok := phi.Type().Underlying().(*types.Basic); !ok || b.Info()&types.IsInteger == 0 {
		return false
	}
	sawInit, sawStep := false, false
	for i, ed := range phi.Edges {
		pred := phi.Block().Preds[i]
		if li.blocks[pred] {
			bo, ok := ed.(*ssa.BinOp)
			if !ok || bo.Op != token.ADD {
				return false
			}
			c, isC := bo.Y.(*ssa.Const)
			if bo.X != ssa.Value(phi) || !isC || c.Value == nil || c.Value.ExactString() != "1" {
				return false
			}
			sawStep = true
		} else {
			c, ok := ed.(*ssa.Const)
			if !ok || c.Value == nil || c.Value.ExactString() != "0" {
				return false
			}
			sawInit = true
		}
	}
	return sawInit && sawStep
}

// nameSince: the instruction from which on the variable name holds value c (its first debug reference;
// for phis and values without one, the definition itself). nil for constants and parameters.
func (e *Enc) nameSince(name string, c ssa.Value) ssa.Instruction {
	if phi, ok := c.(*ssa.Phi); ok {
		return phi // a merge of assignments: the variable holds it from the join on
	}
	if m := e.nameAt[name]; m != nil {
		if at, ok := m[c]; ok {
			return at
		}
	}
	in, _ := c.(ssa.Instruction)
	return in
}

func (e *Enc) inScopeAt(at ssa.Instruction) bool {
	if at == nil || e.curBlock == nil || at.Block() == nil || at.Block().Parent() != e.curBlock.Parent() {
		return true
	}
	if at.Block() == e.curBlock {
		if e.curInstr == nil || e.curInstr.Block() != e.curBlock {
			return true
		}
		ai, ci := -1, -1
		for i, x := range e.curBlock.Instrs {
			if x == at {
				ai = i
			}
			if x == e.curInstr {
				ci = i
			}
		}
		return ai < ci
	}
	return at.Block().Dominates(e.curBlock)
}

func (e *Enc) instrPosition(in ssa.Instruction) (depth, index int) {
	if in == nil || in.Block() == nil {
		return -1, 0
	}
	for b := in.Block(); b != nil; b = b.Idom() {
		depth++
	}
	for i, x := range in.Block().Instrs {
		if x == in {
			index = i
		}
	}
	return
}

// defPosition orders definitions that dominate one another: depth of the defining block in the
// dominator tree, then the position inside the block (constants and parameters come first).
func (e *Enc) defPosition(v ssa.Value) (depth, index int) {
	in, ok := v.(ssa.Instruction)
	if !ok || in.Block() == nil {
		return -1, 0
	}
	for b := in.Block(); b != nil; b = b.Idom() {
		depth++
	}
	for i, x := range in.Block().Instrs {
		if x == in {
			index = i
		}
	}
	return
}

// fnEnv: parameters, free variables, named SSA values, promoted locals.
func (e *Enc) fnEnv(st *State) *Env {
	env := &Env{e: e, vars: map[string]TV{}, state: st, old: e.entry, now0: e.now0}
	// a source name denotes the value the variable holds here: among the SSA values known under the
	// name (debug references and phis) whose definition dominates this point, the latest one
	cands := map[string][]ssa.Value{}
	for name, vs := range e.names {
		cands[name] = append(cands[name], vs...)
	}
	for _, b := range e.fn.Blocks {
		for _, in := range b.Instrs {
			phi, ok := in.(*ssa.Phi)
			if !ok {
				break
			}
			if phi.Comment != "" {
				cands[phi.Comment] = append(cands[phi.Comment], phi)
			}
		}
	}
	for name, vs := range cands {
		var best ssa.Value
		bd, bi := -2, 0
		for _, c := range vs {
			v, ok := e.vals[c]
			if !ok || v.Addr != nil || v.Tuple != nil || v.T.S == "" {
				continue
			}
			at := e.nameSince(name, c)
			if !e.inScopeAt(at) {
				continue
			}
			d, i := e.instrPosition(at)
			if best == nil || d > bd || (d == bd && i > bi) {
				best, bd, bi = c, d, i
			}
		}
		if best == nil && e.nameFallback {
			// postconditions are evaluated at every return: a name not yet defined on the way to an early
			// return still has to denote something there (its value is unconstrained on that path)
			for _, c := range vs {
				v, ok := e.vals[c]
				if !ok || v.Addr != nil || v.Tuple != nil || v.T.S == "" {
					continue
				}
				d, i := e.defPosition(c)
				if best == nil || d > bd || (d == bd && i > bi) {
					best, bd, bi = c, d, i
				}
			}
		}
		if best != nil {
			env.vars[name] = TV{T: e.vals[best].T, Typ: best.Type()}
		} else if os.Getenv("PVC_DEBUG_NAMES") == name && os.Getenv("PVC_DEBUG_FN") == e.name {
			for _, c := range vs {
				v, ok := e.vals[c]
				fmt.Fprintf(os.Stderr, "name %s cand %s (%T) ok=%v addr=%v tuple=%v T=%q since=%v inscope=%v cur=%v\n", name, c.Name(), c, ok, v.Addr != nil, v.Tuple != nil, v.T.S, e.nameSince(name, c), e.inScopeAt(e.nameSince(name, c)), e.curBlock)
			}
		}
	}
	for a, t := range st.locals {
		if a.Comment != "" {
			env.vars[a.Comment] = TV{T: t, Typ: derefType(a.Type())}
		}
	}
	for _, ar := range e.allocs {
		if ar.instr == nil || ar.instr.Comment == "" {
			continue
		}
		if k := e.p.cvKeyMaybe(ar.instr); k != "" {
			env.vars[ar.instr.Comment] = TV{T: Select(e.heapGet(st, k), ar.ref), Typ: ar.typ}
		}
	}
	for _, fv := range e.fn.FreeVars {
		v := e.vals[fv]
		if v.Addr != nil && v.Addr.Kind == "cv" {
			// a captured variable: the name denotes its current content
			env.vars[fv.Name()] = TV{T: Select(e.heapGet(st, v.Addr.Key), v.Addr.Base), Typ: v.Addr.Elem}
			continue
		}
		env.vars[fv.Name()] = TV{T: v.T, Typ: fv.Type()}
	}
	for _, p := range e.fn.Params {
		// a parameter name denotes the value passed in; when the variable is reassigned in a loop the
		// value it holds in the current iteration is available as cur_<name>
		if cur, ok := env.vars[p.Name()]; ok && cur.T.S != e.vals[p].T.S {
			env.vars["cur_"+p.Name()] = cur
		}
		env.vars[p.Name()] = TV{T: e.vals[p].T, Typ: p.Type()}
	}
	// explicit SSA registers: $t12
	for v, x := range e.vals {
		if x.Addr == nil && x.Tuple == nil && x.T.S != "" {
			if _, isInstr := v.(ssa.Instruction); isInstr {
				env.vars["$"+v.Name()] = TV{T: x.T, Typ: v.Type()}
			}
		}
	}
	return env
}

func (e *Enc) loopHeader(b *ssa.BasicBlock, li *loopInfo, preds []*ssa.BasicBlock) {
	// entry values of the phis
	entryBind := map[ssa.Value]Val{}
	var phis []*ssa.Phi
	for _, in := range b.Instrs {
		phi, ok := in.(*ssa.Phi)
		if !ok {
			break
		}
		phis = append(phis, phi)
		srt := e.sortOf(phi.Type())
		c := e.fresh("phi_in_"+phi.Name(), srt)
		for i, p := range b.Preds {
			if _, done := e.exit[p]; !done || b.Dominates(p) {
				continue
			}
			e.assert(Implies(e.edge(p, b), Eq(c, e.termOf(phi.Edges[i]))))
		}
		entryBind[phi] = Val{T: c, Typ: phi.Type()}
	}
	entryState := e.cur.clone()
	// init obligations
	invs := e.loopInvariants(li)
	envIn := e.loopEnv(li, entryState, entryBind)
	for _, cl := range invs {
		t, err := envIn.Eval(cl.Expr)
		label := cl.Label
		if label == "" {
			label = "i" + itoa(cl.Line)
		}
		if err != nil {
			e.contractError(e.name, cl, err, b.Instrs[0].Pos())
			continue
		}
		e.obligeNamed(fmt.Sprintf("%s/inv/loop%d/%s/init", e.name, li.index, label), "inv-init", label, b.Instrs[0].Pos(), t.T, cl.Props, "invariant "+cl.Src)
	}
	for _, cd := range li.cands {
		if cd.dead {
			continue
		}
		g := cd.mk(e, entryBind, entryState)
		e.candCheck(li, cd, "init", g)
	}
	// havoc
	for _, phi := range phis {
		c := e.declare(e.valName(phi), e.sortOf(phi.Type()))
		e.vals[phi] = Val{T: c, Typ: phi.Type()}
		e.assume(e.typeInv(c, phi.Type(), e.cur.now))
	}
	// constructor-only fields: the loop body (this very function) may write the objects it allocated itself,
	// so only objects older than this activation are known to be unchanged
	nowBeforeLoop := e.now0
	private := e.loopPrivateAllocs(li)
	for _, k := range e.expandKeys(li.mod) {
		if rv, ok := li.loopRoot(k); ok && strings.HasPrefix(k, "F|") && !li.mod["*"] {
			if rt, known := e.vals[rv]; known && rt.Addr == nil && rt.Tuple == nil && rt.T.S != "" {
				// every write of the body goes to this one object: only its field is unknown at the head
				old := e.heapGet(e.cur, k)
				fv := e.fresh("loopcell", arrayElemSort(old.Sort))
				e.heapSet(e.cur, k, e.define("H_"+sanitize(k), Store(old, rt.T, fv)))
				if ft := e.p.fieldTypeByKey(k); ft != nil {
					if _, basic := ft.Underlying().(*types.Basic); basic {
						e.assume(e.typeInv(fv, ft, e.cur.now)) // range of a machine integer; references may be younger than the clock here
					}
				}
				e.unbalancedCallee = li.directMod[k]
				e.monotoneAssume(k, old, e.heapGet(e.cur, k))
				e.unbalancedCallee = false
				continue
			}
		}
		old, nw := e.havocKey(e.cur, k)
		e.unbalancedCallee = li.directMod[k] // the loop body itself writes the field: nothing is known about it at the head
		e.monotoneAssume(k, old, nw)
		e.unbalancedCallee = false
		e.initOnlyAssume(k, old, nw, nowBeforeLoop)
		// objects of this function that stay private throughout the loop and are not written by it keep their fields
		parts := strings.Split(k, "|")
		if parts[0] == "E" {
			e.privateSliceFrame(k, old, nw, func(f *sliceFamily) bool {
				for in := range f.writes {
					if li.blocks[in.Block()] {
						return true
					}
				}
				for in := range f.esc {
					if li.blocks[in.Block()] {
						return true
					}
				}
				return false
			})
		}
		if parts[0] == "F" {
			for _, a := range private {
				if _, isStruct := a.typ.Underlying().(*types.Struct); isStruct && e.p.structKeyName(a.typ) == parts[1] && !e.loopStoresField(li, a.val, parts[2]) {
					e.assert(Eq(Select(nw, a.ref), Select(old, a.ref)))
				}
			}
		}
	}
	// a private slice handed out somewhere in the loop counts as handed out from the head on
	for _, f := range e.families {
		for in := range f.esc {
			if li.blocks[in.Block()] {
				e.heap0Bool(f.key())
				e.cur.heap[f.key()] = True
				break
			}
		}
	}
	// results and counts of calls made inside the loop are unknown at its head
	{
		called := e.loopCallNames(li)
		var ks []string
		seenK := map[string]bool{}
		for k := range e.cur.heap {
			if !seenK[k] {
				seenK[k] = true
				ks = append(ks, k)
			}
		}
		for k := range e.heap0 {
			if !seenK[k] {
				seenK[k] = true
				ks = append(ks, k)
			}
		}
		for n := range called {
			if e.p.Contracts.Counted[n] && !seenK["cnt|"+n] {
				e.heap0["cnt|"+n] = IntLit(0)
				ks = append(ks, "cnt|"+n)
			}
		}
		sort.Strings(ks)
		for _, k := range ks {
			if strings.HasPrefix(k, "lastta|") || strings.HasPrefix(k, "lasttaf|") {
				// assertions made in earlier iterations are not this iteration's (only if the body makes such assertions)
				if e.loopAsserts(li, strings.Split(k, "|")[1]) {
					e.cur.heap[k] = e.fresh("lastta_loop", e.heapGet(e.cur, k).Sort)
				}
				continue
			}
			parts := strings.Split(k, "|")
			if len(parts) < 2 || !called[parts[1]] {
				continue
			}
			switch parts[0] {
			case "lastn":
				e.cur.heap[k] = e.fresh("lastn_loop", e.heapGet(e.cur, k).Sort)
			case "larg":
				e.cur.heap[k] = e.fresh("larg_loop", e.heapGet(e.cur, k).Sort)
			case "last":
				e.cur.heap[k] = e.fresh("last_loop", e.heapGet(e.cur, k).Sort)
			case "cnt":
				old := e.heapGet(e.cur, k)
				c := e.fresh("cnt_loop", SInt)
				e.assert(Ge(c, old))
				e.cur.heap[k] = c
			}
		}
	}
	var mls []*ssa.Alloc
	for a := range li.modLocals {
		mls = append(mls, a)
	}
	sort.Slice(mls, func(i, j int) bool { return e.p.cvKeyName(mls[i]) < e.p.cvKeyName(mls[j]) })
	for _, a := range mls {
		if old, ok := e.cur.locals[a]; ok {
			e.cur.locals[a] = e.fresh("L_"+a.Comment, old.Sort)
		} else {
			e.cur.locals[a] = e.fresh("L_"+a.Comment, e.sortOf(derefType(a.Type())))
		}
		e.assume(e.typeInv(e.cur.locals[a], derefType(a.Type()), e.cur.now))
	}
	if li.allocs {
		nn := e.fresh("now_loop", SInt)
		e.assert(Ge(nn, e.cur.now))
		e.cur.now = nn
	}
	// assume invariants
	envH := e.loopEnv(li, e.cur, nil)
	for _, cl := range invs {
		t, err := envH.Eval(cl.Expr)
		if err == nil {
			e.assume(t.T)
		}
	}
	for _, cd := range li.cands {
		if !cd.dead {
			e.assume(cd.mk(e, nil, e.cur))
		}
	}
	// a slice variable all of whose backing arrays are made by this function (make/append) holds nil or
	// an array of this activation, also after any number of iterations
	for _, phi := range phis {
		for _, f := range e.families {
			if f.memberS[phi] {
				pv := e.termOf(phi)
				e.assume(Or(Eq(SliceArr(pv), IntLit(0)), Ge(Birth(SliceArr(pv)), e.now0)))
			}
		}
	}
	// a pointer carried around the loop refers to an object that satisfies its type's invariant
	// (every value flowing into the phi was loaded, returned or passed in under that invariant)
	for _, phi := range phis {
		e.assumeLoadedInv(e.termOf(phi), phi.Type())
	}
	e.reassumeInvariants()
	e.propagationAtLoopHead(li)
	e.cur.heap[fmt.Sprintf("ent|%d", li.index)] = True
	li.headerState = e.cur.clone()
	// variants
	li.decAtHeader = nil
	e.setupAutoVariants(li)
	if e.fc != nil {
		for _, cl := range e.fc.Dec[li.index] {
			t, err := envH.Eval(cl.Expr)
			if err != nil {
				e.contractError(e.name, cl, err, b.Instrs[0].Pos())
				continue
			}
			li.decAtHeader = append(li.decAtHeader, []Term{e.define("variant", t.T)})
		}
	}
}

// loopAsserts: does the loop body contain a type assertion to the (pointer) type with this name?
func (e *Enc) loopAsserts(li *loopInfo, typ string) bool {
	for b := range li.blocks {
		for _, in := range b.Instrs {
			if ta, ok := in.(*ssa.TypeAssert); ok && e.p.relTypeString(ta.AssertedType) == typ {
				return true
			}
		}
	}
	return false
}

func (e *Enc) loopInvariants(li *loopInfo) []Clause {
	if e.fc == nil {
		return nil
	}
	return e.fc.Inv[li.index]
}

// backEdges emits the preservation obligations for back edges leaving block b.
func (e *Enc) backEdges(b *ssa.BasicBlock) {
	for slot, s := range b.Succs {
		if !s.Dominates(b) {
			continue
		}
		li := e.loops[s]
		if li == nil {
			continue
		}
		cond := e.edgeCond[[2]int{b.Index, slot}]
		saveReach := e.curReach
		e.curReach = cond
		bind := map[ssa.Value]Val{}
		pi := -1
		for i, p := range s.Preds {
			if p == b {
				pi = i
			}
		}
		for _, in := range s.Instrs {
			phi, ok := in.(*ssa.Phi)
			if !ok {
				break
			}
			bind[phi] = Val{T: e.termOf(phi.Edges[pi]), Typ: phi.Type()}
		}
		env := e.loopEnv(li, e.cur, bind)
		pos := b.Instrs[len(b.Instrs)-1].Pos()
		if !pos.IsValid() {
			pos = s.Instrs[0].Pos()
		}
		for _, cl := range e.loopInvariants(li) {
			t, err := env.Eval(cl.Expr)
			label := cl.Label
			if label == "" {
				label = "i" + itoa(cl.Line)
			}
			if err != nil {
				continue
			}
			e.obligeNamed(fmt.Sprintf("%s/inv/loop%d/%s/preserve@%d", e.name, li.index, label, e.backOrdinal(li, b)), "inv-preserve", label, pos, t.T, cl.Props, "invariant "+cl.Src)
		}
		for _, cd := range li.cands {
			if cd.dead {
				continue
			}
			e.candCheck(li, cd, "preserve", cd.mk(e, bind, e.cur))
		}
		e.propagationAtBackEdge(li, b, pos)
		if e.fc != nil && len(e.fc.IterEnd[li.index]) > 0 && li.headerState != nil {
			// iterend: what one iteration has done. Loop variables denote their values in this iteration,
			// old(...) the state at the start of the iteration.
			ienv := e.loopEnv(li, e.cur, nil)
			ienv.old = li.headerState
			// next_<name>: the value the loop variable takes into the next iteration
			for phiV, v := range bind {
				if phi, ok := phiV.(*ssa.Phi); ok && phi.Comment != "" {
					ienv.vars["next_"+phi.Comment] = TV{T: v.T, Typ: phi.Type()}
				}
			}
			for _, cl := range e.fc.IterEnd[li.index] {
				t, err := ienv.Eval(cl.Expr)
				label := cl.Label
				if label == "" {
					label = "i" + itoa(cl.Line)
				}
				if err != nil {
					e.contractError(e.name, cl, err, pos)
					continue
				}
				e.obligeNamed(fmt.Sprintf("%s/iterend/loop%d/%s@%d", e.name, li.index, label, e.backOrdinal(li, b)), "iterend", label, pos, t.T, cl.Props, "iterend "+cl.Src)
			}
		}
		if e.fc != nil {
			for i, cl := range e.fc.Dec[li.index] {
				if i >= len(li.decAtHeader) {
					continue
				}
				t, err := env.Eval(cl.Expr)
				if err != nil {
					continue
				}
				m0 := li.decAtHeader[i][0]
				e.obligeNamed(fmt.Sprintf("%s/decreases/loop%d@%d", e.name, li.index, e.backOrdinal(li, b)), "decreases", "", pos, And(Ge(m0, IntLit(0)), Lt(t.T, m0)), cl.Props, "decreases "+cl.Src)
			}
		}
		e.autoVariantEdge(li, b, bind, pos)
		e.curReach = saveReach
	}
}

func (e *Enc) backOrdinal(li *loopInfo, b *ssa.BasicBlock) int {
	idx := 0
	bs := append([]*ssa.BasicBlock(nil), li.backs...)
	sort.Slice(bs, func(i, j int) bool { return bs[i].Index < bs[j].Index })
	for i, x := range bs {
		if x == b {
			idx = i
		}
	}
	return idx
}

// ---------- entry / exit ----------

func (e *Enc) emitAxioms() {
	env := &Env{e: e, vars: map[string]TV{}, state: e.cur, old: e.cur, now0: e.now0}
	for _, ax := range e.p.Contracts.Axioms {
		if !e.axiomRelevant(ax) {
			continue
		}
		t, err := env.Eval(ax.Expr)
		if err != nil {
			e.note("axiom does not evaluate: %s: %v", ax.Src, err)
			continue
		}
		e.assert(t.T)
	}
}

// axiomRelevant: only axioms tagged for this function (by {fn:NAME}) or untagged are emitted.
func (e *Enc) axiomRelevant(ax Clause) bool {
	if len(ax.Props) == 0 {
		return true
	}
	for _, p := range ax.Props {
		if strings.HasPrefix(p, "fn:") && strings.TrimPrefix(p, "fn:") == e.name {
			return true
		}
		if p == "all" {
			return true
		}
	}
	return false
}

// onlyFlowsObligations: syntactic data-flow restriction on a parameter (every use must be an argument of an allowed callee).
func (e *Enc) onlyFlowsObligations() {
	if e.fc == nil {
		return
	}
	for _, of := range e.fc.OnlyFlows {
		var param *ssa.Parameter
		for _, p := range e.fn.Params {
			if p.Name() == of.Param {
				param = p
			}
		}
		if param == nil {
			e.obligeNamed(e.name+"/contract-applies/onlyflows/"+of.Param, "contract-applies", of.Param, e.fn.Pos(), False, of.Props, "onlyflows names unknown parameter "+of.Param)
			continue
		}
		var check func(v ssa.Value, depth int)
		seen := map[ssa.Value]bool{}
		check = func(v ssa.Value, depth int) {
			if seen[v] || depth > 4 {
				return
			}
			seen[v] = true
			refs := v.Referrers()
			if refs == nil {
				return
			}
			for _, r := range *refs {
				switch x := r.(type) {
				case *ssa.DebugRef:
					continue
				case *ssa.ChangeInterface:
					check(x, depth+1)
					continue
				case *ssa.MakeInterface:
					check(x, depth+1)
					continue
				case *ssa.Phi:
					check(x, depth+1)
					continue
				case ssa.CallInstruction:
					name, _, _ := e.calleeName(x.Common())
					ok := false
					for _, c := range of.Callees {
						if c == name {
							ok = true
						}
					}
					if len(e.inLoops[r.Block()]) > 0 {
						ok = false
						name = name + " (inside a loop)"
					}
					// the value must be an argument, not the receiver of an invoke
					if x.Common().IsInvoke() && x.Common().Value == v {
						ok = false
						name = name + " (as receiver)"
					}
					save := e.curReach
					e.curReach = True
					e.oblige("flows", of.Param+"/"+name, r.Pos(), BoolLit(ok), of.Props, "parameter "+of.Param+" may only be passed to "+strings.Join(of.Callees, ", "))
					e.curReach = save
					continue
				}
				save := e.curReach
				e.curReach = True
				e.oblige("flows", of.Param+"/other-use", r.Pos(), False, of.Props, "parameter "+of.Param+" may only be passed to "+strings.Join(of.Callees, ", "))
				e.curReach = save
			}
		}
		check(param, 0)
	}
}

func (e *Enc) assumeEntry() {
	e.onlyFlowsObligations()
	if e.fc != nil && e.fc.Pure {
		// a function declared pure must have an empty write set (whole call tree, inferred syntactically)
		ms := e.p.ModSets[e.fn]
		var ks []string
		for k := range ms {
			// memory of library types (loggers, buffers) is not modelled as package state
			if strings.Contains(k, "|X_") {
				continue
			}
			ks = append(ks, k)
		}
		sort.Strings(ks)
		e.obligeNamed(e.name+"/pure/no-writes", "pure", "no-writes", e.fn.Pos(), BoolLit(len(ks) == 0), nil, "declared pure but may write: "+strings.Join(ks, " "))
	}
	env := e.fnEnv(e.cur)
	for _, p := range e.fn.Params {
		e.assumeLoadedInv(e.vals[p].T, p.Type())
	}
	e.assumeRefinedRequires()
	if e.fc == nil {
		return
	}
	var reqs []Term
	for _, cl := range e.fc.Req {
		t, err := env.Eval(cl.Expr)
		if err != nil {
			e.contractError(e.name, cl, err, e.fn.Pos())
			continue
		}
		e.assert(t.T)
		reqs = append(reqs, t.T)
	}
	// vacuity guard: the precondition must be satisfiable
	if len(reqs) > 0 {
		ob := &Obligation{Name: e.name + "/cover/pre", Kind: "cover", Func: e.name, Pos: e.p.Pos(e.fn.Pos()), enc: e, Src: "precondition satisfiable"}
		ob.PrefixLen = e.sb.Len()
		ob.Goal = "(assert true)"
		e.emit("(push 1)")
		e.emit("(check-sat)")
		e.emit("(pop 1)")
		e.obs = append(e.obs, ob)
	}
}

// checkPost: exit obligations are evaluated at every return site in that site's own state (no merged heap):
// the goal is the conjunction over the return sites of  reach(site) => clause[state(site), results(site)].
func (e *Enc) checkPost(rets []retRec) {
	sig := e.fn.Signature
	pos := e.fn.Pos()
	envOf := func(r retRec) *Env {
		if r.block != nil {
			e.curBlock = r.block // names are resolved as of the return statement
		}
		e.nameFallback = true
		env := e.fnEnv(r.state)
		e.nameFallback = false
		for i := 0; i < sig.Results().Len() && i < len(r.vals); i++ {
			rt := sig.Results().At(i).Type()
			tv := TV{T: e.coerce(r.vals[i]), Typ: rt}
			env.vars[fmt.Sprintf("r%d", i)] = tv
			if n := sig.Results().At(i).Name(); n != "" && n != "_" {
				env.vars[n] = tv
			}
		}
		return env
	}
	// ghost assignments declared for this function happen when it returns
	if e.fc != nil {
		for ri := range rets {
			env := envOf(rets[ri])
			for _, gu := range e.fc.GhostUpd {
				t, err := env.Eval(gu.Expr)
				if err != nil {
					e.note("ghostset %s: %v", gu.Name, err)
					continue
				}
				e.heapSet(rets[ri].state, "gh|"+gu.Name, t.T)
			}
		}
	}
	saveReach := e.curReach
	e.curReach = True
	defer func() { e.curReach = saveReach }()
	all := func(f func(r retRec, env *Env) (Term, error)) (Term, error) {
		var cs []Term
		for _, r := range rets {
			t, err := f(r, envOf(r))
			if err != nil {
				return Term{}, err
			}
			cs = append(cs, Implies(r.reach, t))
		}
		return And(cs...), nil
	}
	// lock discipline: every lock taken is released on every return path
	if h0, used := e.heap0["gh|$held"]; used {
		g, _ := all(func(r retRec, env *Env) (Term, error) {
			h, ok := r.state.heap["gh|$held"]
			if !ok {
				h = h0
			}
			return Eq(h, h0), nil
		})
		e.obligeNamed(e.name+"/lock/balanced", "lock", "balanced", pos, g, []string{"C05", "C20"}, "locks held at return equal locks held at entry")
		if e.fnFlag("singlecs") {
			e.obligeNamed(e.name+"/lock/single-critical-section", "lock", "single-critical-section", pos, BoolLit(e.lockCount <= 1), []string{"C05", "C20"}, "the function takes its lock at most once (lookup and fill form one critical section)")
		}
	}
	// preserved fields: a function that writes one restores it before returning (unless flagged unbalanced)
	if !e.fnFlag("unbalanced") {
		for tf, props := range e.p.Contracts.Preserved {
			parts := strings.SplitN(tf, ".", 2)
			key := "F|" + parts[0] + "|" + parts[1]
			if !e.directStores[key] {
				continue
			}
			g, _ := all(func(r retRec, env *Env) (Term, error) {
				return Eq(e.heapGet(r.state, key), e.heapGet(e.entry, key)), nil
			})
			e.obligeNamed(e.name+"/preserved/"+tf, "preserved", tf, pos, g, props, "the function restores "+tf+" of every object before it returns")
		}
	}
	e.checkPropagation(rets, envOf)
	// struct invariants of objects allocated here must hold when the function returns them
	e.checkAllocInvariants(pos, rets)
	// the protocol of a function type this function is a value of
	for _, rf := range e.p.refinementsOf(e.fn) {
		for i, cl := range rf.fc.Ens {
			label := cl.Label
			if label == "" {
				label = "e" + itoa(i)
			}
			if strings.HasPrefix(label, "assume-") {
				continue
			}
			g, err := all(func(r retRec, env *Env) (Term, error) {
				renv := e.refinementEnv(env, rf.fc)
				for j, rn := range rf.fc.Results {
					if v, ok := env.vars[fmt.Sprintf("r%d", j)]; ok {
						renv.vars[rn] = v
					}
				}
				t, err := renv.Eval(cl.Expr)
				return t.T, err
			})
			if err != nil {
				e.contractError(e.name, cl, err, pos)
				continue
			}
			e.obligeNamed(e.name+"/refines/"+rf.name+"/"+label, "post", "refines/"+rf.name+"/"+label, pos, g, cl.Props, "ensures (protocol of "+rf.name+") "+cl.Src)
		}
	}
	if e.fc == nil {
		return
	}
	for i, cl := range e.fc.Ens {
		label := cl.Label
		if label == "" {
			label = "e" + itoa(i)
		}
		if strings.HasPrefix(cl.Label, "assume-") {
			// an abstraction clause: relates the function to an uninterpreted spec function; it is assumed at call
			// sites and listed as an assumption, not checked against the body
			e.note("assumed abstraction clause of %s: %s", e.name, cl.Src)
			continue
		}
		g, err := all(func(r retRec, env *Env) (Term, error) {
			t, err := env.Eval(cl.Expr)
			return t.T, err
		})
		if err != nil {
			e.contractError(e.name, cl, err, pos)
			continue
		}
		e.obligeNamed(e.name+"/post/"+label, "post", label, pos, g, cl.Props, "ensures "+cl.Src)
	}
}

// ---------- struct invariants ----------

type invObj struct {
	t     Term
	typ   types.Type // struct type
	since Term       // call results: also valid when born at or after this time
}

func (e *Enc) structInv(t types.Type) *TypeInv {
	n, ok := t.(*types.Named)
	if !ok {
		return nil
	}
	if n.Obj().Pkg() != e.p.Types {
		return nil
	}
	return e.p.Contracts.TypeInvs[n.Obj().Name()]
}

// assumeLoadedInv: a *T obtained from a parameter, the heap or a call satisfies T's invariant (if non-nil).
func (e *Enc) assumeLoadedInv(v Term, t types.Type) {
	if t == nil {
		return
	}
	pt, ok := t.Underlying().(*types.Pointer)
	if !ok {
		return
	}
	ti := e.structInv(pt.Elem())
	if ti == nil || len(ti.Clauses) == 0 {
		return
	}
	for _, o := range e.invObjs {
		if o.t.S == v.S {
			return
		}
	}
	e.invObjs = append(e.invObjs, invObj{t: v, typ: pt.Elem()})
	e.assumeInvOf(v, pt.Elem(), ti)
}

// assumeResultInv: an object handed back by a callee satisfies its invariant unless it is one
// this function allocated itself before the call (and has not completed yet).
func (e *Enc) assumeResultInv(v Term, t types.Type, nowAtCall Term) {
	if t == nil {
		return
	}
	pt, ok := t.Underlying().(*types.Pointer)
	if !ok {
		return
	}
	ti := e.structInv(pt.Elem())
	if ti == nil || len(ti.Clauses) == 0 {
		return
	}
	env := &Env{e: e, vars: map[string]TV{"self": {T: v, Typ: t}}, state: e.cur, old: e.entry, now0: e.now0}
	for _, cl := range ti.Clauses {
		tt, err := env.Eval(cl.Expr)
		if err != nil {
			continue
		}
		e.assume(Implies(e.notMine(v, pt.Elem()), tt.T))
	}
	e.invObjs = append(e.invObjs, invObj{t: v, typ: pt.Elem()})
}

func (e *Enc) assumeInvOf(v Term, st types.Type, ti *TypeInv) {
	env := &Env{e: e, vars: map[string]TV{"self": {T: v, Typ: types.NewPointer(st)}}, state: e.cur, old: e.entry, now0: e.now0}
	for _, cl := range ti.Clauses {
		t, err := env.Eval(cl.Expr)
		if err != nil {
			e.note("type invariant of %s does not evaluate: %v", ti.Type, err)
			continue
		}
		// objects allocated in this function establish the invariant at return, not before
		e.assume(Implies(e.notMine(v, st), t.T))
	}
}

// notMine: v is a non-nil object that this function did not allocate itself.
func (e *Enc) notMine(v Term, st types.Type) Term {
	cs := []Term{Ne(v, IntLit(0))}
	for _, a := range e.allocs {
		if !a.complete && types.Identical(a.typ, st) {
			// an allocation on a path that was not taken does not exist
			if r, ok := e.reach[a.block]; ok && a.block != nil && e.prefix == "" {
				cs = append(cs, Or(Not(r), Ne(v, a.ref)))
			} else {
				cs = append(cs, Ne(v, a.ref))
			}
		}
	}
	return And(cs...)
}

func (e *Enc) reassumeInvariants() {
	for _, o := range e.invObjs {
		if ti := e.structInv(o.typ); ti != nil {
			if o.since.S != "" {
				env := &Env{e: e, vars: map[string]TV{"self": {T: o.t, Typ: types.NewPointer(o.typ)}}, state: e.cur, old: e.entry, now0: e.now0}
				for _, cl := range ti.Clauses {
					tt, err := env.Eval(cl.Expr)
					if err == nil {
						e.assume(Implies(And(Ne(o.t, IntLit(0)), Or(Lt(Birth(o.t), e.now0), Ge(Birth(o.t), o.since))), tt.T))
					}
				}
				continue
			}
			e.assumeInvOf(o.t, o.typ, ti)
		}
	}
}

// invMentions: does T's invariant mention field f?
func invMentions(ti *TypeInv, field string) bool {
	for _, cl := range ti.Clauses {
		if strings.Contains(cl.Src, "self."+field) {
			return true
		}
	}
	return false
}

// typeInvAfterStore: a store to a field mentioned in the owner's invariant must re-establish it
// (for objects not allocated by this function; those are checked when the function returns).
// typeInvAfterStore checks the clauses of the struct's invariant that mention the stored field (or one of the
// fields stored just before it in the same run of stores, see moreStoresToSameObject).
func (e *Enc) typeInvAfterStore(a *Addr, pos token.Pos, earlier []string) {
	if a.Kind != "field" {
		return
	}
	ti := e.structInv(a.Struct)
	if ti == nil {
		return
	}
	fnames := append([]string{a.Struct.Underlying().(*types.Struct).Field(a.Field).Name()}, earlier...)
	env := &Env{e: e, vars: map[string]TV{"self": {T: a.Base, Typ: types.NewPointer(a.Struct)}}, state: e.cur, old: e.entry, now0: e.now0}
	for i, cl := range ti.Clauses {
		mentioned := false
		for _, fname := range fnames {
			if strings.Contains(cl.Src, "self."+fname) {
				mentioned = true
			}
		}
		if !mentioned {
			continue
		}
		t, err := env.Eval(cl.Expr)
		if err != nil {
			continue
		}
		e.oblige("typeinv", ti.Type+"/"+itoa(i), pos, Or(Ge(Birth(a.Base), e.now0), t.T), cl.Props, "invariant of "+ti.Type+": "+cl.Src)
	}
}

// completeHandedOver: see applyCall.
func (e *Enc) completeHandedOver(c *ssa.CallCommon, pos token.Pos) {
	if e.prefix != "" {
		return
	}
	var ops []ssa.Value
	if c.IsInvoke() {
		ops = append(ops, c.Value)
	}
	ops = append(ops, c.Args...)
	for _, op := range ops {
		for i := range e.allocs {
			a := &e.allocs[i]
			if a.complete || a.val != op {
				continue
			}
			ti := e.structInv(a.typ)
			if ti == nil {
				continue
			}
			env := &Env{e: e, vars: map[string]TV{"self": {T: a.ref, Typ: types.NewPointer(a.typ)}}, state: e.cur, old: e.entry, now0: e.now0}
			for k, cl := range ti.Clauses {
				t, err := env.Eval(cl.Expr)
				if err != nil {
					continue
				}
				e.oblige("typeinv-new", ti.Type+"/handed-over/"+itoa(k), pos, t.T, cl.Props, "invariant of new "+ti.Type+" when it is handed to a callee: "+cl.Src)
			}
			a.complete = true
			e.invObjs = append(e.invObjs, invObj{t: a.ref, typ: a.typ})
		}
	}
}

func (e *Enc) checkAllocInvariants(pos token.Pos, rets []retRec) {
	if e.fn.Name() == "init" && e.fn.Synthetic != "" {
		return // the package initialiser allocates dummy objects only to obtain their reflect.Type
	}
	sig := e.fn.Signature
	for _, a := range e.allocs {
		ti := e.structInv(a.typ)
		if ti == nil || a.complete {
			continue
		}
		onlyRet := a.instr != nil && e.onlyEscapesByReturn(a.instr)
		for i, cl := range ti.Clauses {
			var cs []Term
			bad := false
			for _, r := range rets {
				env := &Env{e: e, vars: map[string]TV{"self": {T: a.ref, Typ: types.NewPointer(a.typ)}}, state: r.state, old: e.entry, now0: e.now0}
				t, err := env.Eval(cl.Expr)
				if err != nil {
					bad = true
					break
				}
				guard := And(r.reach, e.reach[a.block])
				if onlyRet {
					// an object that can only leave the function as a result must satisfy its invariant when it is returned
					var hits []Term
					for k := 0; k < sig.Results().Len() && k < len(r.vals); k++ {
						rv := e.coerce(r.vals[k])
						if rv.Sort != SInt {
							continue
						}
						hits = append(hits, Eq(rv, a.ref))
						if types.IsInterface(sig.Results().At(k).Type()) {
							_, unbox, srt, id := e.boxFns(types.NewPointer(a.typ))
							hits = append(hits, And(Eq(DynType(rv), IntLit(int64(id))), Eq(App(srt, unbox, rv), a.ref)))
						}
					}
					guard = And(guard, Or(hits...))
				}
				cs = append(cs, Implies(guard, t.T))
			}
			if bad {
				continue
			}
			e.oblige("typeinv-new", ti.Type+"/"+itoa(i), pos, And(cs...), cl.Props, "invariant of new "+ti.Type+": "+cl.Src)
		}
	}
}

// onlyEscapesByReturn: every use of the allocation is a field access, or leads (possibly boxed) to a return.
func (e *Enc) onlyEscapesByReturn(a *ssa.Alloc) bool {
	ok := true
	var visit func(v ssa.Value, depth int)
	seen := map[ssa.Value]bool{}
	visit = func(v ssa.Value, depth int) {
		if !ok || seen[v] || depth > 5 {
			return
		}
		seen[v] = true
		refs := v.Referrers()
		if refs == nil {
			return
		}
		for _, r := range *refs {
			switch x := r.(type) {
			case *ssa.DebugRef, *ssa.UnOp, *ssa.Return:
			case *ssa.FieldAddr:
				if x.X != v {
					ok = false
				}
			case *ssa.Store:
				if x.Addr != v {
					ok = false
				}
			case *ssa.MakeInterface:
				visit(x, depth+1)
			case *ssa.ChangeInterface:
				visit(x, depth+1)
			case *ssa.Phi:
				visit(x, depth+1)
			default:
				ok = false
			}
		}
	}
	visit(a, 0)
	return ok
}

// ---------- frame obligations (C04/C05/C12) ----------

func (e *Enc) frameOn() bool { return e.p.ExecReach[e.fn] }

// regionOf: "perexec", "compiled", "caller", "scratch" for a struct type name.
func (e *Enc) regionOfStruct(name string) string {
	if r, ok := e.p.Contracts.Regions[name]; ok {
		return r
	}
	return "compiled"
}

func (e *Enc) frameObligationAddr(in ssa.Instruction, a *Addr, pos token.Pos) {
	switch a.Kind {
	case "field":
		e.frameObligation(in, "store", e.p.fieldKey(a.Struct, a.Field), a.Base, pos)
	case "elem":
		e.frameObligation(in, "store", e.p.elemKey(a.Elem), a.Base, pos)
	case "global":
		e.frameObligation(in, "store", a.Key, IntLit(0), pos)
	case "sub":
		e.frameObligationAddr(in, a.Outer, pos)
	case "wild":
		e.frameObligation(in, "store", e.p.wildKey(a.Elem), a.Base, pos)
	}
}

func (e *Enc) frameObligation(in ssa.Instruction, kind, key string, base Term, pos token.Pos) {
	e.frameObligationGuarded(in, kind, key, base, pos, True)
}

func (e *Enc) frameObligationGuarded(in ssa.Instruction, kind, key string, base Term, pos token.Pos, guard Term) {
	if !e.frameOn() {
		return
	}
	parts := strings.Split(key, "|")
	var goal Term
	fresh := Ge(Birth(base), e.now0)
	switch parts[0] {
	case "F", "S":
		switch e.regionOfStruct(parts[1]) {
		case "perexec", "scratch":
			return // writable by construction of the region declaration
		default:
			goal = fresh
		}
	case "E", "M":
		goal = Or(fresh, App(SBool, "perexec", base))
	case "G":
		goal = False
	case "W", "C":
		goal = False
	case "CV":
		return
	default:
		goal = False
	}
	props := []string{"C04", "C05"}
	if parts[0] == "M" || parts[0] == "E" {
		props = append(props, "C12") // the caller's context and data are never written
	}
	e.oblige("frame", kind+"/"+key, pos, Implies(guard, goal), props, "write must target memory that is fresh or per-execution: "+key)
}

// effectObligation (C11): calls that touch the file system are only allowed in loaders.
func (e *Enc) effectObligation(callee string, pos token.Pos) {
	if !fileEffect[callee] {
		return
	}
	if e.p.isLoaderMethod(e.fn) || e.fnFlag("fileaccess") {
		return
	}
	e.oblige("effect", callee, pos, False, []string{"C11"}, "direct file-system access outside a TemplateLoader: "+callee)
}

var fileEffect = map[string]bool{
	"os.ReadFile": true, "os.Open": true, "os.OpenFile": true, "os.Stat": true, "os.Lstat": true, "os.ReadDir": true,
	"os.Getwd": true, "io/ioutil.ReadFile": true, "ioutil.ReadFile": true, "os.Create": true, "os.WriteFile": true,
	"(io/fs.FS).Open": true, "(fs.FS).Open": true, "(net/http.FileSystem).Open": true, "(http.FileSystem).Open": true,
	"fs.ReadFile": true, "filepath.Abs": true, "filepath.Glob": true, "filepath.Walk": true, "filepath.WalkDir": true, "filepath.EvalSymlinks": true,
	"os.DirFS": true, "os.Chdir": true, "os.Remove": true, "os.Rename": true, "os.Mkdir": true, "os.MkdirAll": true,
}

// guardObligation: access to a field declared `guarded T.f by T.m` needs the mutex of the same object held
// (objects still under construction in this function are exempt).
func (e *Enc) guardObligation(a *Addr, pos token.Pos, what string) {
	if a == nil || a.Kind != "field" {
		return
	}
	st := a.Struct.Underlying().(*types.Struct)
	key := e.p.structKeyName(a.Struct) + "." + st.Field(a.Field).Name()
	mf, ok := e.p.Contracts.Guarded[key]
	if !ok {
		return
	}
	parts := strings.SplitN(mf, ".", 2)
	midx := -1
	for i := 0; i < st.NumFields(); i++ {
		if st.Field(i).Name() == parts[1] {
			midx = i
		}
	}
	if midx < 0 {
		e.obligeNamed(e.name+"/contract-applies/guarded/"+key, "contract-applies", key, pos, False, []string{"C05", "C20"}, "guarded declaration names an unknown mutex field "+mf)
		return
	}
	m := e.addrToTerm(&Addr{Kind: "field", Base: a.Base, Struct: a.Struct, Field: midx})
	held := e.heldArr()
	e.oblige("guard", what+"/"+key, pos, Or(Select(held, m), Ge(Birth(a.Base), e.now0)), []string{"C05", "C20"}, "access to "+key+" requires "+mf+" to be held")
}

// monotoneAssume: a field declared `monotone T.f` only ever changes from false to true.
func (e *Enc) monotoneAssume(key string, old, nw Term) {
	parts := strings.Split(key, "|")
	if len(parts) == 3 && parts[0] == "F" {
		if _, ok := e.p.Contracts.Preserved[parts[1]+"."+parts[2]]; ok && !e.unbalancedCallee {
			// a preserved field: the callee (or loop iteration) restores it
			e.assert(Eq(nw, old))
			return
		}
	}
	if len(parts) != 3 || parts[0] != "F" || !e.p.Contracts.Monotone[parts[1]+"."+parts[2]] {
		return
	}
	q := fmt.Sprintf("(forall ((qo Int)) (! (=> (select %s qo) (select %s qo)) :pattern ((select %s qo))))", old.S, nw.S, nw.S)
	e.assert(mk(SBool, q))
}

// monotoneObligation at a store to a monotone field.
func (e *Enc) monotoneObligation(a *Addr, v Term, pos token.Pos) {
	if a.Kind != "field" {
		return
	}
	st := a.Struct.Underlying().(*types.Struct)
	key := e.p.structKeyName(a.Struct) + "." + st.Field(a.Field).Name()
	if !e.p.Contracts.Monotone[key] {
		return
	}
	old := Select(e.heapGet(e.cur, e.p.fieldKey(a.Struct, a.Field)), a.Base)
	e.oblige("monotone", key, pos, Or(Ge(Birth(a.Base), e.now0), Implies(old, v)), []string{"C03"}, key+" never goes from true to false")
}

// writersObligation: direct writes to a key with a `writers` declaration are only allowed in the listed functions.
func (e *Enc) writersObligation(key string, base Term, pos token.Pos) {
	allowed, ok := e.p.Contracts.Writers[key]
	if !ok {
		return
	}
	for _, a := range allowed {
		if a == e.name {
			return
		}
	}
	e.oblige("writers", key, pos, Ge(Birth(base), e.now0), e.p.Contracts.WritersProps[key], "only "+strings.Join(allowed, ", ")+" may write "+key+" of an existing object")
}

// initOnlyAssume: constructor-only fields of objects that existed before the havoc keep their value.
func (e *Enc) initOnlyAssume(key string, old, nw, nowBefore Term) {
	if !e.p.InitOnly[key] {
		return
	}
	q := fmt.Sprintf("(forall ((qo Int)) (! (=> (< (birth qo) %s) (= (select %s qo) (select %s qo))) :pattern ((select %s qo))))", nowBefore.S, nw.S, old.S, nw.S)
	e.assert(mk(SBool, q))
}

// assignKeysTyped resolves "param.field" items against the callee's parameter types (type-level key).
func (e *Enc) assignKeysTyped(fc *FuncContract, fn *ssa.Function, item string) []string {
	parts := strings.SplitN(strings.TrimSpace(item), ".", 2)
	if len(parts) == 2 && fn != nil {
		for _, p := range fn.Params {
			if p.Name() != parts[0] {
				continue
			}
			if pt, ok := p.Type().Underlying().(*types.Pointer); ok {
				if st, ok := pt.Elem().Underlying().(*types.Struct); ok {
					for fi := 0; fi < st.NumFields(); fi++ {
						if st.Field(fi).Name() == parts[1] {
							return []string{e.p.fieldKey(pt.Elem(), fi)}
						}
					}
				}
			}
		}
	}
	return e.assignKeys(fc, item)
}

// loopPrivateAllocs: objects allocated before the loop that have not escaped at its head and do not escape inside it.
func (e *Enc) loopPrivateAllocs(li *loopInfo) []allocRec {
	first := li.header.Instrs[0]
	var out []allocRec
	for _, a := range e.unescapedAllocs(first) {
		if li.blocks[a.block] {
			continue
		}
		esc := false
		var visit func(v ssa.Value, depth int)
		seen := map[ssa.Value]bool{}
		visit = func(v ssa.Value, depth int) {
			if esc || seen[v] || depth > 6 {
				return
			}
			seen[v] = true
			refs := v.Referrers()
			if refs == nil {
				return
			}
			for _, r := range *refs {
				switch x := r.(type) {
				case *ssa.DebugRef, *ssa.UnOp:
					continue
				case *ssa.FieldAddr:
					if x.X == v {
						visit(x, depth+1)
					}
					continue
				case *ssa.IndexAddr:
					if x.X == v {
						visit(x, depth+1)
					}
					continue
				case *ssa.Store:
					if x.Addr == v {
						continue
					}
				}
				if li.blocks[r.Block()] {
					esc = true
					return
				}
			}
		}
		visit(a.val, 0)
		if !esc {
			out = append(out, a)
		}
	}
	return out
}

// loopStoresField: does the loop body store to field `name` through this very object?
func (e *Enc) loopStoresField(li *loopInfo, obj ssa.Value, name string) bool {
	for b := range li.blocks {
		for _, in := range b.Instrs {
			st, ok := in.(*ssa.Store)
			if !ok {
				continue
			}
			fa, ok := st.Addr.(*ssa.FieldAddr)
			if !ok {
				continue
			}
			stT := derefType(fa.X.Type())
			sst, ok := stT.Underlying().(*types.Struct)
			if !ok || sst.Field(fa.Field).Name() != name {
				continue
			}
			if fa.X == obj {
				return true
			}
			// a different SSA value of the same struct type might alias only if obj escaped (it has not), unless it is a phi of locals
			if _, isPhi := fa.X.(*ssa.Phi); isPhi {
				return true
			}
		}
	}
	return false
}

// pureApp applies the uninterpreted function standing for result i of a pure function.
func (e *Enc) pureApp(fc *FuncContract, name string, i int, args []Term, res Sort) Term {
	fn := "pure_" + sanitize(name)
	if fc.PureName != "" {
		fn = "pure_" + sanitize(fc.PureName)
	}
	if i > 0 {
		fn += "_" + itoa(i)
	}
	var as []Sort
	for _, a := range args {
		as = append(as, a.Sort)
	}
	e.declareFun(fn, as, res)
	return App(res, fn, args...)
}

// externMutationObligation (C04/C05): a library method with a pointer receiver may mutate its receiver;
// in execution code the receiver must be fresh or per-execution memory (a buffer kept inside a compiled node
// would be shared state). Read-only methods and synchronised library types are exempt.
var readOnlyExternMethods = map[string]bool{
	"String": true, "Bytes": true, "Len": true, "Cap": true, "Available": true, "Error": true, "Unwrap": true,
}

func (e *Enc) externMutationObligation(name string, fn *ssa.Function, recv Val, recvVal ssa.Value, pos token.Pos) {
	if !e.frameOn() || fn.Signature.Recv() == nil {
		return
	}
	pt, ok := fn.Signature.Recv().Type().(*types.Pointer)
	if !ok {
		return
	}
	n, ok := pt.Elem().(*types.Named)
	if !ok || n.Obj().Pkg() == nil {
		return
	}
	switch n.Obj().Pkg().Path() {
	case "regexp", "log", "sync", "sync/atomic", "math/rand", "time", "reflect":
		return
	}
	if readOnlyExternMethods[fn.Name()] {
		return
	}
	// only receivers that live in (or are loaded directly from) a field of a compiled-region struct are
	// checked: that is the "scratch buffer kept in a node" pattern; parameters and captured variables are the
	// caller's business
	var fa *ssa.FieldAddr
	var loaded Term
	switch x := recvVal.(type) {
	case *ssa.FieldAddr:
		fa = x
	case *ssa.UnOp:
		if f2, ok := x.X.(*ssa.FieldAddr); ok {
			fa = f2
			loaded = recv.T
		}
	}
	if fa == nil {
		// a receiver taken from package-level state or out of a shared library container (sync.Pool, sync.Map)
		// is neither fresh nor per-execution memory
		if origin := e.sharedOrigin(recvVal, 0); origin != "" {
			e.oblige("frame", "extern-mutation/"+name, pos, False, []string{"C04", "C05"}, "receiver of mutating library method "+name+" comes from "+origin+": shared between executions")
		}
		return
	}
	st := derefType(fa.X.Type())
	if _, local, _ := e.p.structSortName(st); !local {
		return
	}
	if r := e.regionOfStruct(e.p.structKeyName(st)); r == "perexec" || r == "scratch" {
		return
	}
	base := e.termOf(fa.X)
	goalFresh := Ge(Birth(base), e.now0)
	if loaded.S != "" {
		goalFresh = Or(goalFresh, Ge(Birth(loaded), e.now0), App(SBool, "perexec", loaded))
	}
	e.oblige("frame", "extern-mutation/"+name, pos, goalFresh, []string{"C04", "C05"}, "receiver of mutating library method "+name+" lives in a compiled node: it must be fresh or per-execution memory")
}

// sortedMemoryObligation: the sort package rearranges the memory it is given. In execution code that memory
// must have been made by the running function (or be nil): a `sorted` loop does not reorder the caller's list.
func (e *Enc) sortedMemoryObligation(name string, arg ssa.Value, pos token.Pos) {
	switch name {
	case "sort.Sort", "sort.Stable", "sort.Slice", "sort.SliceStable", "sort.Strings", "sort.Ints", "sort.Float64s":
	default:
		return
	}
	if !e.frameOn() {
		return
	}
	goal, what := e.sortedMemoryFresh(arg, 0)
	e.oblige("frame", "extern-mutation/"+name, pos, goal, []string{"C04", "C05", "C12"}, name+" rearranges "+what+": it must be memory made by this activation (or nil), not data of the caller or of a compiled node")
}

func (e *Enc) sortedMemoryFresh(v ssa.Value, depth int) (Term, string) {
	if depth > 4 {
		return False, "memory the engine cannot trace"
	}
	switch x := v.(type) {
	case *ssa.MakeInterface:
		return e.sortedMemoryFresh(x.X, depth+1)
	case *ssa.ChangeType:
		return e.sortedMemoryFresh(x.X, depth+1)
	case *ssa.Call:
		if n, _, _ := e.calleeName(x.Common()); n == "sort.Reverse" && len(x.Common().Args) == 1 {
			return e.sortedMemoryFresh(x.Common().Args[0], depth+1)
		}
	}
	if _, ok := v.Type().Underlying().(*types.Slice); ok {
		t := e.termOf(v)
		arr := SliceArr(t)
		return Or(Eq(arr, IntLit(0)), Ge(Birth(arr), e.now0)), "the backing array of " + v.Name()
	}
	return False, "memory the engine cannot trace (" + v.Type().String() + ")"
}

// sharedOrigin: does the value come from a package-level variable or out of a shared library container?
func (e *Enc) sharedOrigin(v ssa.Value, depth int) string {
	if depth > 8 || v == nil {
		return ""
	}
	switch x := v.(type) {
	case *ssa.Global:
		if x.Pkg == e.p.SSAPkg {
			return "the package-level variable " + x.Name()
		}
		return ""
	case *ssa.UnOp:
		return e.sharedOrigin(x.X, depth+1)
	case *ssa.FieldAddr:
		return e.sharedOrigin(x.X, depth+1)
	case *ssa.IndexAddr:
		return e.sharedOrigin(x.X, depth+1)
	case *ssa.TypeAssert:
		return e.sharedOrigin(x.X, depth+1)
	case *ssa.ChangeType:
		return e.sharedOrigin(x.X, depth+1)
	case *ssa.ChangeInterface:
		return e.sharedOrigin(x.X, depth+1)
	case *ssa.Extract:
		return e.sharedOrigin(x.Tuple, depth+1)
	case *ssa.Phi:
		for _, ed := range x.Edges {
			if o := e.sharedOrigin(ed, depth+1); o != "" {
				return o
			}
		}
		return ""
	case *ssa.Call:
		if sc := x.Call.StaticCallee(); sc != nil && sc.Signature.Recv() != nil {
			rt := sc.Signature.Recv().Type()
			if pt, ok := rt.(*types.Pointer); ok {
				rt = pt.Elem()
			}
			if n, ok := rt.(*types.Named); ok && n.Obj().Pkg() != nil && n.Obj().Pkg().Path() == "sync" && (n.Obj().Name() == "Pool" || n.Obj().Name() == "Map") {
				return "a sync." + n.Obj().Name() + " (" + sc.Name() + ")"
			}
		}
	}
	return ""
}

// ---- termination of loops (C01): explicit `decreases` clauses, or inferred linear measures ----

// isRangeLoop: loops generated for `range` over slices/strings/maps terminate by construction.
func isRangeLoop(li *loopInfo) bool {
	c := li.header.Comment
	if strings.HasPrefix(c, "rangeindex") || strings.HasPrefix(c, "rangeiter") {
		return true
	}
	return false
}

func (e *Enc) setupAutoVariants(li *loopInfo) {
	li.autoVar = nil
	li.isRange = isRangeLoop(li)
	if li.isRange || e.skipObligations {
		return
	}
	if e.fc != nil && len(e.fc.Dec[li.index]) > 0 {
		return
	}
	for _, in := range li.header.Instrs {
		phi, ok := in.(*ssa.Phi)
		if !ok {
			break
		}
		if b, ok := phi.Type().Underlying().(*types.Basic); !ok || b.Info()&types.IsInteger == 0 {
			continue
		}
		// phi itself (counting down to zero)
		li.autoVar = append(li.autoVar, autoVariant{desc: phi.Name(), mk: func(e *Enc, bind map[ssa.Value]Val) (Term, bool) { return e.phiVal(phi, bind), true }})
		for _, bt := range e.loopBoundTerms(li, phi) {
			bt := bt
			li.autoVar = append(li.autoVar, autoVariant{desc: bt.desc + "-" + phi.Name(), mk: func(e *Enc, bind map[ssa.Value]Val) (Term, bool) {
				t, ok := bt.mk(e)
				if !ok {
					return Term{}, false
				}
				return Sub(t, e.phiVal(phi, bind)), true
			}})
			li.autoVar = append(li.autoVar, autoVariant{desc: phi.Name() + "-" + bt.desc, mk: func(e *Enc, bind map[ssa.Value]Val) (Term, bool) {
				t, ok := bt.mk(e)
				if !ok {
					return Term{}, false
				}
				return Sub(e.phiVal(phi, bind), t), true
			}})
		}
	}
	for i := range li.autoVar {
		t, ok := li.autoVar[i].mk(e, nil)
		if ok {
			li.autoVar[i].atHead = e.define("avar", t)
		}
	}
}

func (e *Enc) autoVariantEdge(li *loopInfo, b *ssa.BasicBlock, bind map[ssa.Value]Val, pos token.Pos) {
	if li.isRange || e.skipObligations {
		return
	}
	for i := range li.autoVar {
		av := &li.autoVar[i]
		if av.atHead.S == "" {
			continue
		}
		t, ok := av.mk(e, bind)
		if !ok {
			continue
		}
		ob := e.obligeNamed(fmt.Sprintf("%s/variant-cand/loop%d/%s@%d", e.name, li.index, av.desc, e.backOrdinal(li, b)), "variant-cand", av.desc, pos, And(Ge(av.atHead, IntLit(0)), Lt(t, av.atHead)), nil, "candidate termination measure "+av.desc)
		av.obs = append(av.obs, ob)
	}
}

// terminationObligations emits, per non-range loop without an explicit variant, one derived obligation:
// some inferred measure decreases on every back edge.
func (e *Enc) terminationObligations() {
	for _, li := range e.loopList {
		if li.isRange {
			continue
		}
		if e.fc != nil && len(e.fc.Dec[li.index]) > 0 {
			continue
		}
		ob := &Obligation{Name: fmt.Sprintf("%s/decreases/loop%d/inferred", e.name, li.index), Kind: "decreases", Func: e.name,
			Pos: e.p.Pos(li.header.Instrs[0].Pos()), enc: e, Src: "loop terminates: an inferred integer measure is bounded below and decreases on every back edge"}
		for _, av := range li.autoVar {
			if len(av.obs) == len(li.backs) && len(av.obs) > 0 {
				ob.AnyOf = append(ob.AnyOf, av.obs)
			}
		}
		ob.Derived = true
		e.obs = append(e.obs, ob)
	}
}

// callOrdinal: index of this call among the calls of the same callee in the function, in source order.
// appendOrdinal: position (in source order) of this append among the function's appends to slices of elem.
func (e *Enc) appendOrdinal(elem types.Type, at ssa.Instruction) int {
	if at == nil {
		return -1
	}
	type site struct {
		pos token.Pos
		in  ssa.Instruction
	}
	var sites []site
	for _, b := range e.fn.Blocks {
		for _, in := range b.Instrs {
			ci, ok := in.(ssa.CallInstruction)
			if !ok {
				continue
			}
			bi, ok := ci.Common().Value.(*ssa.Builtin)
			if !ok || bi.Name() != "append" || len(ci.Common().Args) == 0 {
				continue
			}
			if sl, ok := ci.Common().Args[0].Type().Underlying().(*types.Slice); ok && types.Identical(sl.Elem(), elem) {
				sites = append(sites, site{in.Pos(), in})
			}
		}
	}
	sort.SliceStable(sites, func(i, j int) bool { return sites[i].pos < sites[j].pos })
	for i, s := range sites {
		if s.in == at {
			return i
		}
	}
	return -1
}

func (e *Enc) callOrdinal(name string, at ssa.Instruction) int {
	if at == nil {
		return -1
	}
	type site struct {
		pos token.Pos
		in  ssa.Instruction
	}
	var sites []site
	for _, b := range e.fn.Blocks {
		for _, in := range b.Instrs {
			ci, ok := in.(ssa.CallInstruction)
			if !ok {
				continue
			}
			n, _, _ := e.calleeName(ci.Common())
			if n == name {
				sites = append(sites, site{in.Pos(), in})
			}
		}
	}
	sort.SliceStable(sites, func(i, j int) bool { return sites[i].pos < sites[j].pos })
	for i, s := range sites {
		if s.in == at {
			return i
		}
	}
	return -1
}

// inScope: the SSA value is defined at a point that dominates the block being encoded (a contract evaluated
// here may refer to it by its source name).
func (e *Enc) inScope(v ssa.Value) bool {
	in, ok := v.(ssa.Instruction)
	if !ok || e.curBlock == nil || in.Block() == nil {
		return true
	}
	if in.Block().Parent() != e.curBlock.Parent() {
		return true
	}
	return in.Block() == e.curBlock || in.Block().Dominates(e.curBlock)
}
