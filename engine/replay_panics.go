package main

// Catalogue replays for the panic class (C01 and the panic-freedom parts of C07/C08/C18): a failed obligation in a
// filter function, in expression evaluation or in the name resolver is turned into an experiment on the REAL code:
// the function is driven through the public API over a catalogue of awkward values and the first panic is
// reported as the failing input. A candidate counts only if the real code panics on it; otherwise the violation
// is reported with no-failing-input-found. __FUNC__ is replaced by the name of the function the obligation is in.

const panicCatalogueDecl = `
type zzMyString string
type zzStringer struct{ s string }
func (z zzStringer) String() string { return z.s }
type zzStruct struct {
	Name  string
	Items []int
	inner int
	Ptr   *zzStruct
	Fn    func() int
	When  *time.Time
}
func (z zzStruct) ValM() string { return "v" }
func (z *zzStruct) Method() string { return "m" }
func (z *zzStruct) Add(a, b int) int { return a + b }

func zzValues() []any {
	var nilPtr *zzStruct
	return []any{
		nil, true, false, 0, 1, -1, 7, 1 << 62, -(1 << 62), int64(9223372036854775807), int64(-9223372036854775808), uint8(255), uint64(18446744073709551615),
		0.0, 0.5, -0.5, 1.5, 1e300, -1e300, float32(0.9),
		"", "a", "abc", "0", "0.3", "-5", "9000000000000000000", "-9000000000000000000", "1:2", ":", "a,b", "a,b,c", "naïve café €", "\xff\xfe", "<b>&\"'</b>", "   ", "\n", "{{",
		[]int{}, []int{1, 2, 3}, [3]int{1, 2, 3}, []string{"a", "b"}, []any{1, "a", nil},
		map[string]int{"k": 1}, map[int]string{1: "a"}, map[zzMyString]int{"k": 1}, map[any]int{"k": 1},
		zzStruct{Name: "n"}, &zzStruct{Name: "p", Items: []int{1}}, nilPtr, zzStringer{"<s>"}, zzMyString("ms"),
		func() int { return 1 }, func(a int) int { return a }, func(s fmt.Stringer) string { return "x" }, func(a ...int) int { return len(a) },
		(func() int)(nil), func() (int, *Error) { return 5, nil }, func() (int, error) { var e *Error; return 5, e }, func() (*Value, *Error) { return nil, nil },
	}
}

type zzFailWriter struct{}
func (zzFailWriter) Write(p []byte) (int, error) { return 0, fmt.Errorf("writer failed") }

func zzTry(what string, f func()) (panicked bool) {
	defer func() {
		if r := recover(); r != nil {
			panicked = true
			fmt.Printf("REPRODUCED: %s panics: %v\n", what, r)
		}
	}()
	f()
	return false
}
`

func init() {
	replayCases = append(replayCases,
		// filters: find the registered names bound to the Go function and apply them over the catalogue
		replayCase{Prop: "", Pattern: `^filter[A-Z][A-Za-z0-9]*(\$\d+)?/(bounds|slice|divzero|typeassert|panic|makeslice|pre|at|post|decreases)`, Imports: []string{"reflect", "runtime"},
			Test: `	fname := "__FUNC__"
	if i := strings.Index(fname, "$"); i >= 0 { fname = fname[:i] }
	var names []string
	for name, fn := range filters {
		if strings.HasSuffix(runtime.FuncForPC(reflect.ValueOf(fn).Pointer()).Name(), "."+fname) { names = append(names, name) }
	}
	vals := zzValues()
	done := false
	for _, name := range names {
		for _, in := range vals {
			for _, prm := range vals {
				if done { break }
				in, prm, name := in, prm, name
				done = zzTry(fmt.Sprintf("ApplyFilter(%q, AsValue(%#v), AsValue(%#v))", name, in, prm), func() { ApplyFilter(name, AsValue(in), AsValue(prm)) })
			}
		}
	}`},
		// expression evaluation: every binary operator over the numeric part of the catalogue
		replayCase{Prop: "", Pattern: `^\(\*(term|power|simpleExpression|relationalExpression|Expression)\)\.Evaluate/`, Imports: []string{},
			Test: `	ops := []string{"+", "-", "*", "/", "%", "^", "<", "<=", "==", "!=", ">", ">=", "and", "or", "in", "not in"}
	vals := zzValues()
	done := false
	for _, op := range ops {
		tpl, err := FromString("{{ a " + op + " b }}{{ not a }}{{ -a }}")
		if err != nil { continue }
		for _, a := range vals {
			for _, b := range vals {
				if done { break }
				a, b, op := a, b, op
				done = zzTry(fmt.Sprintf("{{ a %s b }} with a=%#v b=%#v", op, a, b), func() { tpl.Execute(Context{"a": a, "b": b}) })
			}
		}
	}`},
		// name resolution: access paths into every catalogue value
		replayCase{Prop: "", Pattern: `^(\(\*variableResolver\)\.resolve|argumentFits|fieldByName|\(\*Value\)\.[A-Za-z]+)/`, Imports: []string{},
			Test: `	paths := []string{"v", "v.k", "v.0", "v.5", "v.Name", "v.name", "v.inner", "v.Items.0", "v.Ptr.Name", "v.Method", "v.Method()", "v.ValM", "v.ValM()", "v.Ptr.ValM", "v.Fn", "v.Fn()", "v.When.Year", "v.When.Year()", "v.Add(1, 2)", "v.Add(1)", "v.Add(\"a\", 2)", "v()", "v(1)", "v(1, 2)", "v(\"s\")", "v(nil)", "v[0]", "v[\"k\"]", "v[k]", "v|length", "v|first", "v|last", "v|slice:\"1:2\"", "v|join:\",\"", "v|random"}
	vals := zzValues()
	done := false
	for _, p := range paths {
		tpl, err := FromString("{{ " + p + " }}{% if " + p + " %}y{% endif %}{% for i in v %}{{ i }}{% endfor %}")
		if err != nil { continue }
		for _, v := range vals {
			if done { break }
			v, p := v, p
			done = zzTry(fmt.Sprintf("{{ %s }} with v=%#v", p, v), func() { tpl.Execute(Context{"v": v, "k": "k"}) })
		}
	}`},
		// lexer, parser, tag parsers and tag nodes: compile and execute a catalogue of small (mostly malformed or
		// degenerate) sources, each tag with no, one, two and three arguments of every token kind
		replayCase{Prop: "", Pattern: `^(lex|\(\*lexer\)\.[A-Za-z]+|\(\*Parser\)\.[A-Za-z]+|tag[A-Z][A-Za-z]*Parser|\(\*tag[A-Z][A-Za-z]*Node\)\.[A-Za-z]+|\(\*Template\)\.[A-Za-z]+|\(\*nodeVariable\)\.Execute)(\$\d+)?/(bounds|slice|divzero|typeassert|panic|makeslice|pre)`, Imports: []string{"sort"},
			Test: `	var srcs []string
	srcs = append(srcs, zzCatalogue...)
	srcs = append(srcs, "", "{", "{{", "{%", "{#", "{{ }}", "{% %}", "{{ a", "{% if", "{{ \"x", "{{ 'x' }}", "{{ a.b.c.0 }}", "{{ a|", "{{ a|x: }}", "{{ (a }}", "{{ a[ }}", "{{ a( }}", "{{ [ }}", "{{ [1, }}",
		"{% verbatim %}", "{% verbatim %}{% endverbatim %}", "{# x", "\x01", "\xff{{ a }}", "{{ 1 . }}", "{{ 1.x }}", "{{ - }}", "{{ not }}", "{{ a in }}", "{{ 1 ^ }}", "{{- a -}}", "{%- if a -%}x{%- endif -%}")
	var tagNames []string
	for n := range tags { tagNames = append(tagNames, n) }
	sort.Strings(tagNames)
	args := []string{"", "a", "1", "\"s\"", "a b", "a 1", "1 2 3", "a as b", "a b c d", "x=1", "a with x=1 only", "forloop", "a|upper", "( )", ","}
	for _, n := range tagNames {
		for _, a := range args {
			srcs = append(srcs, "{% "+n+" "+a+" %}", "{% "+n+" "+a+" %}x{% end"+n+" %}", "{% for i in l %}{% "+n+" "+a+" %}{% endfor %}", "{% set forloop = 1 %}{% "+n+" "+a+" %}x{% end"+n+" %}")
		}
	}
	set := NewSet("replay", &zzLoader{files: map[string]string{"inc.tpl": "x", "self.tpl": "y"}})
	done := false
	for _, src := range srcs {
		if done { break }
		src := src
		done = zzTry(fmt.Sprintf("compiling and executing %q", src), func() {
			tpl, err := set.FromString(src)
			if err != nil { return }
			tpl.Execute(zzContext())
			tpl.ExecuteWriterUnbuffered(zzContext(), zzFailWriter{})
		})
	}`},
	)
	replayPrelude += panicCatalogueDecl
}
