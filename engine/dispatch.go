package main

import (
	"fmt"
	"go/token"
	"go/types"
	"sort"
	"strings"

	"golang.org/x/tools/go/ssa"
)

// Calls through values of a named function type flagged `dispatch` in the contract file:
//
//	//@ functype lexerStateFn() (r0)
//	//@   flag dispatch
//
// The values of such a type are exactly the address-taken functions of the package with that signature
// (bound methods included); the type is unexported, so no value can come from outside. A call through
// such a value is encoded as a case split over these targets: under fn_id(f) == id(T) the requires of T
// are proof obligations (the receiver of a bound method is the captured one) and the ensures of T are
// assumed. This removes the need to assume anything at the entry of the targets.

// dispatchTargets: address-taken package functions whose signature (without receiver) matches sig.
func (p *Prog) dispatchTargets(owner *ssa.Function, sig *types.Signature) []*ssa.Function {
	var out []*ssa.Function
	for f := range p.addrTaken {
		if f == nil || f.Blocks == nil || !p.isLocalFn(f) {
			continue
		}
		if !sigMatches(f.Signature, sig) {
			continue
		}
		out = append(out, f)
	}
	sort.Slice(out, func(i, j int) bool { return p.FuncName(out[i]) < p.FuncName(out[j]) })
	return out
}

// dispatchContractFor: the `functype T ... flag dispatch` contract whose type has the same signature as t
// (a method value l.m has the unnamed type func() T, assignable to T).
func (p *Prog) dispatchContractFor(t types.Type) (string, *FuncContract) {
	sig, ok := t.Underlying().(*types.Signature)
	if !ok {
		return "", nil
	}
	var names []string
	for n, fc := range p.Contracts.Funcs {
		if fc.Kind == "functype" && fc.Flags["dispatch"] {
			names = append(names, n)
		}
	}
	sort.Strings(names)
	for _, n := range names {
		obj := p.Types.Scope().Lookup(n)
		if obj == nil {
			continue
		}
		if s2, ok := obj.Type().Underlying().(*types.Signature); ok && types.Identical(s2, sig) {
			return n, p.Contracts.Funcs[n]
		}
	}
	return "", nil
}

func boundCapFn(p *Prog, fn *ssa.Function, i int) string {
	return fmt.Sprintf("cap_%s_%d", sanitize(p.FuncName(fn)), i)
}

func (e *Enc) applyDispatch(name string, ftc *FuncContract, c *ssa.CallCommon, instr ssa.Instruction, sig *types.Signature, args []Val, argTypes []types.Type, pos token.Pos) []Val {
	fv := e.termOf(c.Value)
	targets := e.p.dispatchTargets(e.fn, sig)
	e.declareFun("fn_id", []Sort{SInt}, SInt)
	// calling a nil function value is in the nil-dereference class
	e.assume(Ne(fv, IntLit(0)))
	pre := e.cur.clone()
	nowAtCall := e.cur.now
	type tgt struct {
		fn    *ssa.Function
		fc    *FuncContract
		cond  Term
		vars  map[string]TV
		rname []string
	}
	var ts []tgt
	var conds []Term
	for _, t := range targets {
		if len(t.FreeVars) > 0 {
			e.oblige("dispatch", name+"/closure-target/"+e.p.FuncName(t), pos, False, nil, "dispatch over closures with captured variables is not supported")
			continue
		}
		cond := Eq(App(SInt, "fn_id", fv), IntLit(int64(e.p.FuncID(t))))
		conds = append(conds, cond)
		vars := map[string]TV{}
		ai := 0
		for pi, prm := range t.Params {
			if pi == 0 && t.Signature.Recv() != nil {
				capFn := boundCapFn(e.p, t, 0)
				srt := e.sortOf(prm.Type())
				e.declareFun(capFn, []Sort{SInt}, srt)
				rv := App(srt, capFn, fv)
				vars[prm.Name()] = TV{T: rv, Typ: prm.Type()}
				continue
			}
			if ai < len(args) {
				vars[prm.Name()] = TV{T: e.coerce(args[ai]), Typ: argTypes[ai]}
			}
			ai++
		}
		var rn []string
		tfc := e.p.Contracts.Funcs[e.p.FuncName(t)]
		for i := 0; i < t.Signature.Results().Len(); i++ {
			n := t.Signature.Results().At(i).Name()
			if n == "" || n == "_" {
				n = fmt.Sprintf("r%d", i)
			}
			rn = append(rn, n)
		}
		ts = append(ts, tgt{fn: t, fc: tfc, cond: cond, vars: vars, rname: rn})
	}
	// the target set is closed (see the comment at the top of this file)
	e.assume(Or(conds...))
	for _, t := range ts {
		// a pointer receiver captured by a bound method value is not nil (the method value expression l.m
		// dereferences nothing, but the call does: nil-dereference class) and satisfies its type's invariant
		if t.fn.Signature.Recv() != nil {
			rv := t.vars[t.fn.Params[0].Name()]
			e.assume(Implies(t.cond, Ne(rv.T, IntLit(0))))
		}
		if t.fc == nil {
			continue
		}
		env := &Env{e: e, vars: t.vars, state: pre, old: pre, now0: nowAtCall}
		for i, cl := range t.fc.Req {
			tt, err := env.Eval(cl.Expr)
			label := cl.Label
			if label == "" {
				label = "r" + itoa(i)
			}
			if err != nil {
				e.contractError(e.p.FuncName(t.fn), cl, err, pos)
				continue
			}
			if strings.HasPrefix(label, "assume-") {
				continue
			}
			e.oblige("pre", e.p.FuncName(t.fn)+"/"+label, pos, Implies(t.cond, tt.T), cl.Props, "requires "+cl.Src+" (call through a "+name+" value)")
		}
	}
	// caller-side clauses: at <functype> requires ...
	if e.fc != nil {
		ord := e.callOrdinal(name, instrOf(c, e.curBlock))
		for i, at := range e.fc.At {
			if at.Callee != name && at.Callee != fmt.Sprintf("%s#%d", name, ord) {
				continue
			}
			e.atHit[i] = true
			cenv := e.fnEnv(pre)
			cenv.vars["callee"] = TV{T: fv, Typ: c.Value.Type()}
			for j, a := range args {
				cenv.vars[fmt.Sprintf("arg%d", j)] = TV{T: e.coerce(a), Typ: argTypes[j]}
			}
			tt, err := cenv.Eval(at.Clause.Expr)
			label := at.Clause.Label
			if label == "" {
				label = "a" + itoa(i)
			}
			if err != nil {
				e.contractError(e.name, at.Clause, err, pos)
				continue
			}
			e.oblige("at", name+"/"+label, pos, tt.T, at.Clause.Props, "at "+name+" requires "+at.Clause.Src)
		}
	}
	mod := e.callMod(c)
	e.completeHandedOver(c, pos)
	e.havocForCall(mod, instrOf(c, e.curBlock), args)
	{
		nn := e.fresh("now", SInt)
		e.assert(Ge(nn, e.cur.now))
		e.cur.now = nn
	}
	var results []Val
	for i := 0; i < sig.Results().Len(); i++ {
		rt := sig.Results().At(i).Type()
		r := e.fresh("ret_"+sanitize(name), e.sortOf(rt))
		e.assume(e.typeInv(r, rt, e.cur.now))
		results = append(results, Val{T: r, Typ: rt})
	}
	for _, t := range ts {
		if t.fc == nil {
			continue
		}
		post := &Env{e: e, vars: map[string]TV{}, state: e.cur, old: pre, now0: nowAtCall, opaqueLast: map[string]Term{}}
		for k, v := range t.vars {
			post.vars[k] = v
		}
		for i, r := range results {
			if i < len(t.rname) {
				post.vars[t.rname[i]] = TV{T: r.T, Typ: r.Typ}
			}
			post.vars[fmt.Sprintf("r%d", i)] = TV{T: r.T, Typ: r.Typ}
		}
		for _, cl := range t.fc.Ens {
			if strings.Contains(cl.Src, "calls(\"") || strings.HasPrefix(cl.Label, "body-") {
				continue
			}
			tt, err := post.Eval(cl.Expr)
			if err != nil {
				e.contractError(e.p.FuncName(t.fn), cl, err, pos)
				continue
			}
			e.assume(Implies(t.cond, tt.T))
		}
		if len(t.fc.GhostUpd) > 0 {
			e.note("ghost updates of %s are not applied at a dispatched call", e.p.FuncName(t.fn))
		}
	}
	e.reassumeInvariants()
	for _, r := range results {
		e.assumeResultInv(r.T, r.Typ, nowAtCall)
	}
	return results
}

// ---- refinement of function-type contracts ----
// A named function type with a contract (functype TagParser ...) states a protocol: its requires are proof
// obligations at every call through a value of the type, its ensures are assumed there. For the package's own
// functions whose address is taken and whose signature is that of the type, the protocol is checked on the body:
// the requires are assumed at entry and every ensures is an obligation <fn>/refines/<type>/<label>. Functions
// registered by applications are external: for them the protocol stays an assumption.

type refinement struct {
	name string
	fc   *FuncContract
}

func (p *Prog) refinementsOf(fn *ssa.Function) []refinement {
	if fn.Signature.Recv() != nil {
		return p.ifaceRefinementsOf(fn)
	}
	if p.addrTaken == nil || !p.addrTaken[fn] {
		return nil
	}
	var names []string
	for n, fc := range p.Contracts.Funcs {
		if fc.Kind == "functype" && !fc.Flags["dispatch"] && len(fc.Ens) > 0 {
			names = append(names, n)
		}
	}
	sort.Strings(names)
	var out []refinement
	for _, n := range names {
		obj := p.Types.Scope().Lookup(n)
		if obj == nil {
			continue
		}
		if s2, ok := obj.Type().Underlying().(*types.Signature); ok && types.Identical(s2, fn.Signature) {
			out = append(out, refinement{n, p.Contracts.Funcs[n]})
		}
	}
	return out
}

// refinementEnv: the function's environment with the protocol's declared parameter names bound positionally.
func (e *Enc) refinementEnv(env *Env, fc *FuncContract) *Env {
	out := &Env{e: env.e, vars: map[string]TV{}, state: env.state, old: env.old, now0: env.now0, bound: env.bound}
	for k, v := range env.vars {
		out.vars[k] = v
	}
	for i, n := range fc.Params {
		if i < len(e.fn.Params) {
			out.vars[n] = TV{T: e.vals[e.fn.Params[i]].T, Typ: e.fn.Params[i].Type()}
		}
	}
	return out
}

func (e *Enc) assumeRefinedRequires() {
	for _, rf := range e.p.refinementsOf(e.fn) {
		env := e.refinementEnv(e.fnEnv(e.cur), rf.fc)
		for _, cl := range rf.fc.Req {
			t, err := env.Eval(cl.Expr)
			if err != nil {
				e.contractError(rf.name, cl, err, e.fn.Pos())
				continue
			}
			e.assert(t.T)
		}
	}
}

// ifaceRefinementsOf: contracts `iface I.M ...` of package interfaces that the receiver type of method fn
// implements. Their ensures are obligations on fn's body (behavioural subtyping), their requires are assumed
// there (they are obligations at every invoke of I.M).
func (p *Prog) ifaceRefinementsOf(fn *ssa.Function) []refinement {
	if fn.Synthetic != "" || !p.isLocalFn(fn) {
		return nil
	}
	recv := fn.Signature.Recv().Type()
	var names []string
	for n, fc := range p.Contracts.Funcs {
		if fc.Kind == "iface" && fc.Flags["refine"] && len(fc.Ens) > 0 && strings.HasSuffix(n, "."+fn.Name()) {
			names = append(names, n)
		}
	}
	sort.Strings(names)
	var out []refinement
	for _, n := range names {
		in := strings.TrimSuffix(n, "."+fn.Name())
		obj := p.Types.Scope().Lookup(in)
		if obj == nil {
			continue
		}
		it, ok := obj.Type().Underlying().(*types.Interface)
		if !ok {
			continue
		}
		if types.Implements(recv, it) {
			out = append(out, refinement{n, p.Contracts.Funcs[n]})
		}
	}
	return out
}
