package main

import (
	"bufio"
	"crypto/sha1"
	"encoding/hex"
	"encoding/json"
	"flag"
	"fmt"
	"hash/fnv"
	"os"
	"path/filepath"
	"regexp"
	"sort"
	"strconv"
	"strings"
	"sync"
	"runtime"
	"time"

	"golang.org/x/tools/go/ssa"
)

// PropDef says which obligations constitute a property (see DESIGN.md section 5).
type PropDef struct {
	ID     string
	Kinds  []string // obligation kinds that belong to the property by default; "kind@filter" overrides Funcs for that kind
	Funcs  string   // "all", "exec" (execution-reachable), or a regexp over function names; applies to Kinds
	Floor  int      // minimum number of claimed obligations (vacuity guard)
	Unmech []string // steps of the argument that are not machine-checked
	Assume []string // assumptions specific to the property
}

type listEntry struct {
	prop string
	name string
	note string
}

type CheckLists struct {
	known     map[string]listEntry // obligation name -> known finding
	undecided map[string]listEntry
	fixed     []string
}

func loadLists(verifDir string) *CheckLists {
	cl := &CheckLists{known: map[string]listEntry{}, undecided: map[string]listEntry{}}
	read := func(file string, fn func(line string)) {
		f, err := os.Open(filepath.Join(verifDir, file))
		if err != nil {
			return
		}
		defer f.Close()
		sc := bufio.NewScanner(f)
		sc.Buffer(make([]byte, 1<<20), 1<<20)
		for sc.Scan() {
			l := strings.TrimSpace(sc.Text())
			if l == "" || strings.HasPrefix(l, "#") {
				continue
			}
			fn(l)
		}
	}
	// known: property=C04 <obligation name> <what fails>
	read("known_findings.txt", func(l string) {
		fs := strings.Fields(l)
		if len(fs) < 3 {
			return
		}
		switch fs[0] {
		case "known:":
			prop := strings.TrimPrefix(fs[1], "property=")
			cl.known[prop+" "+fs[2]] = listEntry{prop: prop, name: fs[2], note: strings.Join(fs[3:], " ")}
		case "fixed:":
			cl.fixed = append(cl.fixed, l)
		}
	})
	// undecided.txt: <obligation name> <reason>   (tool limit; not claimed by any property)
	read("undecided.txt", func(l string) {
		fs := strings.Fields(l)
		if len(fs) < 1 {
			return
		}
		cl.undecided[fs[0]] = listEntry{name: fs[0], note: strings.Join(fs[1:], " ")}
	})
	return cl
}


var filterRes = map[string]*regexp.Regexp{}

func filterMatches(p *Prog, filter string, fn *ssa.Function) bool {
	switch filter {
	case "", "all":
		return true
	case "exec":
		return p.ExecReach[fn]
	}
	re := filterRes[filter]
	if re == nil {
		re = regexp.MustCompile(filter)
		filterRes[filter] = re
	}
	return re.MatchString(p.FuncName(fn))
}

// kindClaims: does the property claim obligations of this kind in this function by default?
func kindClaims(p *Prog, pd *PropDef, kind string, fn *ssa.Function) bool {
	for _, k := range pd.Kinds {
		filter := pd.Funcs
		if i := strings.Index(k, "@"); i >= 0 {
			filter = k[i+1:]
			k = k[:i]
		}
		if k == kind && filterMatches(p, filter, fn) {
			return true
		}
	}
	return false
}

// assignProps computes, for every obligation, the properties that claim it.
func assignProps(p *Prog, encs []*Enc) {
	claimedIn := map[string]map[string]bool{} // function name -> props with primary claims in it
	add := func(fn, prop string) {
		if claimedIn[fn] == nil {
			claimedIn[fn] = map[string]bool{}
		}
		claimedIn[fn][prop] = true
	}
	// primary claims: by tag or by kind default
	for _, e := range encs {
		for _, ob := range e.obs {
			set := map[string]bool{}
			for _, pr := range ob.Props {
				if strings.HasPrefix(pr, "C") {
					set[pr] = true
				}
			}
			if len(ob.Props) == 0 {
				for _, pd := range propDefs {
					if kindClaims(p, pd, ob.Kind, e.fn) {
						set[pd.ID] = true
					}
				}
			}
			ob.Props = nil
			for pr := range set {
				ob.Props = append(ob.Props, pr)
				add(e.name, pr)
			}
			sort.Strings(ob.Props)
		}
	}
	// support claims: untagged contract obligations support the proofs that rely on them
	callers := map[string]map[string]bool{} // callee name -> caller names
	for _, e := range encs {
		for _, c := range p.calleesOf(e.fn) {
			cn := p.FuncName(c)
			if callers[cn] == nil {
				callers[cn] = map[string]bool{}
			}
			callers[cn][e.name] = true
		}
	}
	for _, e := range encs {
		for _, ob := range e.obs {
			if len(ob.Props) > 0 {
				continue
			}
			set := map[string]bool{}
			switch ob.Kind {
			case "pre":
				// detail = callee/label: the callee's body assumed this clause
				callee := ob.Detail
				if i := strings.LastIndex(callee, "/"); i >= 0 {
					callee = callee[:i]
				}
				for pr := range claimedIn[callee] {
					set[pr] = true
				}
			case "post":
				for caller := range callers[e.name] {
					for pr := range claimedIn[caller] {
						set[pr] = true
					}
				}
			case "inv-init", "inv-preserve", "cand", "decreases", "cover", "typeinv", "typeinv-new", "pure", "preserved", "unsafe":
				for pr := range claimedIn[e.name] {
					set[pr] = true
				}
			}
			for pr := range set {
				ob.Props = append(ob.Props, pr)
			}
			sort.Strings(ob.Props)
			if len(ob.Props) > 0 {
				ob.Support = true
			}
		}
	}
}

func hasProp(ob *Obligation, prop string) bool {
	for _, p := range ob.Props {
		if p == prop {
			return true
		}
	}
	return false
}

type Evidence struct {
	PropertyID  string         `json:"property_id"`
	Tier        string         `json:"tier"`
	Seed        int            `json:"seed"`
	Level       string         `json:"level"`
	Coverage    map[string]any `json:"coverage"`
	Assumptions []string       `json:"assumptions"`
	WallS       float64        `json:"wall_s"`
	Violations  int            `json:"violations"`
}

func treeHash(repo string) string {
	h := sha1.New()
	files, _ := filepath.Glob(filepath.Join(repo, "*.go"))
	sort.Strings(files)
	for _, f := range files {
		b, err := os.ReadFile(f)
		if err == nil {
			h.Write([]byte(f))
			h.Write(b)
		}
	}
	return hex.EncodeToString(h.Sum(nil))[:16]
}

func cmdCheck(args []string) {
	fs := flag.NewFlagSet("check", flag.ExitOnError)
	repo := fs.String("repo", "/repo", "repository")
	verif := fs.String("verif", "/verif", "verification directory")
	keep := fs.Bool("keep", false, "keep smt files")
	outDir := fs.String("out", "", "directory for evidence/ and replays/ (default: the verification directory; runs against a scratch copy of the repository write to a scratch directory)")
	fs.Parse(args)
	rest := fs.Args()
	if len(rest) < 1 {
		fmt.Fprintln(os.Stderr, "usage: pvc check [flags] <property> [quick|thorough]")
		os.Exit(2)
	}
	prop := rest[0]
	tier := "quick"
	if len(rest) > 1 {
		tier = rest[1]
	}
	if t := os.Getenv("VERIF_TIER"); t != "" && len(rest) < 2 {
		tier = t
	}
	seed := 0
	if s := os.Getenv("VERIF_SEED"); s != "" {
		seed, _ = strconv.Atoi(s)
	}
	pd := propDefs[prop]
	if pd == nil {
		fmt.Fprintf(os.Stderr, "unknown property %s\n", prop)
		os.Exit(2)
	}
	t0 := time.Now()
	p := mustLoad(*repo)
	lists := loadLists(*verif)

	dir, _ := os.MkdirTemp("", "pvc")
	if !*keep {
		defer os.RemoveAll(dir)
	}
	if os.Getenv("PVC_NOCACHE") == "" {
		solveCacheDir = filepath.Join(*verif, "work", "solvecache")
		os.MkdirAll(solveCacheDir, 0o755)
	}
	opts := SolveOpts{WorkDir: dir, PrimaryMs: 8000, SecondaryMs: 20000, KeepFiles: *keep}
	if tier == "thorough" {
		opts = SolveOpts{WorkDir: dir, PrimaryMs: 20000, SecondaryMs: 60000, AllSolvers: true, KeepFiles: *keep}
	}
	stats := &SolveStats{}
	// pass 1: encode everything (no solving) to learn which obligations the property claims
	tEnc := time.Now()
	pre := encodeOnly(p, p.FuncList)
	assignProps(p, pre)
	want := map[string]bool{} // obligation names claimed by the property
	var fns []*ssa.Function
	for _, e := range pre {
		n := 0
		for _, ob := range e.obs {
			if hasProp(ob, pd.ID) {
				want[ob.Name] = true
				n++
			}
		}
		if n > 0 || (e.failed != "" && propTouchesFunc(p, pd, e)) {
			fns = append(fns, e.fn)
		}
	}
	if os.Getenv("PVC_VERBOSE") != "" {
		fmt.Fprintf(os.Stderr, "pass 1: %d functions encoded in %.1fs, %d relevant, %d obligations claimed\n", len(pre), time.Since(tEnc).Seconds(), len(fns), len(want))
	}
	// pass 2: infer loop invariants and solve, for the relevant functions only
	opts.Only = want
	opts.NoSecond = map[string]bool{}
	for _, le := range lists.undecided {
		opts.NoSecond[le.name] = true
	}
	for _, le := range lists.known {
		opts.NoSecond[le.name] = true
	}
	encs := encodeAndSolve(p, fns, opts, stats)
	assignProps2(p, pre, encs)

	// evidence and replay files of the registered checks live in /verif; a run against any other copy of the
	// repository (self-tests with mutants) must not overwrite them
	if *outDir == "" {
		if filepath.Clean(*repo) == "/repo" {
			*outDir = *verif
		} else {
			*outDir = filepath.Join(os.TempDir(), fmt.Sprintf("pvc-out-%d", os.Getpid()))
			defer os.RemoveAll(*outDir)
		}
	}
	oracleDir = filepath.Join(*verif, "oracles")
	replayRoot = filepath.Join(*outDir, "replays")
	os.RemoveAll(filepath.Join(replayRoot, pd.ID)) // replay files of earlier runs are stale
	res := evaluate(p, pd, encs, lists, tier, seed, stats, opts)
	// bounded stand-ins for regexp-delegating functions (labelled bounded, never counted as discharged)
	for _, bd := range loadBounded(*verif, pd.ID) {
		br := runBounded(p.RepoDir, *verif, bd, tier)
		res.bounded = append(res.bounded, br)
		if !br.Ran || br.Failures > 0 {
			res.lines = append(res.lines, boundedViolation(pd, br))
			res.boundedViolations++
		}
	}
	res.wall = time.Since(t0).Seconds()
	writeEvidence(*outDir, p, pd, res, tier, seed, stats)
	for _, l := range res.lines {
		fmt.Println(l)
	}
	if len(res.violations) > 0 || res.boundedViolations > 0 {
		if res.toolError != "" {
			fmt.Fprintln(os.Stderr, "TOOL ERROR (in addition to the violations):", res.toolError)
		}
		os.Exit(1)
	}
	if res.toolError != "" {
		fmt.Fprintln(os.Stderr, "TOOL ERROR:", res.toolError)
		os.Exit(2)
	}
	fmt.Printf("OK property=%s tier=%s obligations=%d discharged=%d known=%d undecided=%d functions=%d wall=%.1fs\n",
		prop, tier, len(res.claimed), res.discharged, len(res.known), len(res.undecided), len(res.funcs), res.wall)
}

// encodeOnly encodes functions without solving (used to discover claims).
func encodeOnly(p *Prog, fns []*ssa.Function) []*Enc {
	encs := make([]*Enc, len(fns))
	var wg sync.WaitGroup
	sem := make(chan struct{}, runtime.NumCPU())
	for i, f := range fns {
		wg.Add(1)
		go func(i int, f *ssa.Function) {
			defer wg.Done()
			sem <- struct{}{}
			defer func() { <-sem }()
			e := NewEnc(p, f)
			encs[i] = e
			defer func() {
				if r := recover(); r != nil {
					e.failed = fmt.Sprint(r)
				}
			}()
			e.Encode()
		}(i, f)
	}
	wg.Wait()
	return encs
}

// assignProps2 transfers the claims computed on the first pass to the solved encodings
// (names are stable between passes; inferred-invariant obligations inherit the function's claims).
func assignProps2(p *Prog, pre, encs []*Enc) {
	byName := map[string][]string{}
	support := map[string]bool{}
	fnProps := map[string]map[string]bool{}
	for _, e := range pre {
		for _, ob := range e.obs {
			byName[ob.Name] = ob.Props
			support[ob.Name] = ob.Support
			for _, pr := range ob.Props {
				if fnProps[e.name] == nil {
					fnProps[e.name] = map[string]bool{}
				}
				fnProps[e.name][pr] = true
			}
		}
	}
	for _, e := range encs {
		for _, ob := range e.obs {
			if ps, ok := byName[ob.Name]; ok {
				ob.Props = ps
				ob.Support = support[ob.Name]
				continue
			}
			if ob.Kind == "cand" || ob.Kind == "variant-cand" {
				ob.Props = nil
				for pr := range fnProps[e.name] {
					ob.Props = append(ob.Props, pr)
				}
				sort.Strings(ob.Props)
				ob.Support = true
			}
		}
	}
}

// relevantFuncs: every function is encoded (claims of one function support proofs in others);
// a property with a narrow function filter and no tag-based claims could restrict this.
func relevantFuncs(p *Prog, pd *PropDef) []*ssa.Function {
	return p.FuncList
}

type checkResult struct {
	claimed    []*Obligation
	discharged int
	known      []*Obligation
	knownGone  []string
	undecided  []*Obligation
	violations []*Obligation
	vacuous    []string
	falseGoal  int
	covers     int
	funcs      map[string]bool
	lines      []string
	toolError  string
	wall       float64
	notes      []string
	generated  int
	bounded    []boundedResult
	boundedViolations int
}

var lineHashSuffix = regexp.MustCompile(`@[0-9a-f]{6}(#\d+)?$`)

// siteName: an obligation name without the hash of its source line. Known findings and undecided obligations are
// listed by full name; when the text of the line is edited without changing what it does, the hash changes. A
// failed obligation is then still recognised if there is a listed entry with the same function, kind and detail
// that no failed obligation of this run matches exactly (at most as many as there are such entries).
func siteName(n string) string { return lineHashSuffix.ReplaceAllString(n, "") }

func evaluate(p *Prog, pd *PropDef, encs []*Enc, lists *CheckLists, tier string, seed int, stats *SolveStats, opts SolveOpts) *checkResult {
	r := &checkResult{funcs: map[string]bool{}}
	// quotas for matching by site name: listed entries that no obligation of this run matches by full name
	allNames := map[string]bool{}
	for _, e := range encs {
		for _, ob := range e.obs {
			allNames[ob.Name] = true
		}
	}
	knownQuota := map[string][]listEntry{}
	for key, le := range lists.known {
		if le.prop == pd.ID && !allNames[le.name] {
			_ = key
			knownQuota[siteName(le.name)] = append(knownQuota[siteName(le.name)], le)
		}
	}
	undecQuota := map[string]int{}
	for _, le := range lists.undecided {
		if !allNames[le.name] {
			undecQuota[siteName(le.name)]++
		}
	}
	account := func(ob *Obligation) {
		if k, ok := lists.known[pd.ID+" "+ob.Name]; ok {
			if ob.Discharged() {
				r.knownGone = append(r.knownGone, ob.Name)
				r.claimed = append(r.claimed, ob)
				r.discharged++
			} else {
				r.known = append(r.known, ob)
				r.lines = append(r.lines, fmt.Sprintf("KNOWN-FINDING: property=%s %s %s", pd.ID, ob.Name, k.note))
			}
			return
		}
		if _, ok := lists.undecided[ob.Name]; ok && !ob.Discharged() {
			r.undecided = append(r.undecided, ob)
			return
		}
		if !ob.Discharged() {
			sn := siteName(ob.Name)
			if q := knownQuota[sn]; len(q) > 0 {
				knownQuota[sn] = q[1:]
				r.known = append(r.known, ob)
				r.lines = append(r.lines, fmt.Sprintf("KNOWN-FINDING: property=%s %s %s (listed as %s; the text of the line changed)", pd.ID, ob.Name, q[0].note, q[0].name))
				return
			}
			if undecQuota[sn] > 0 {
				undecQuota[sn]--
				r.undecided = append(r.undecided, ob)
				return
			}
		}
		r.claimed = append(r.claimed, ob)
		if ob.Discharged() {
			r.discharged++
		} else {
			r.violations = append(r.violations, ob)
		}
	}
	for _, e := range encs {
		if e.failed != "" {
			// an encoder failure in a function that the property depends on is fail-closed
			r.notes = append(r.notes, fmt.Sprintf("encoder failed on %s: %s", e.name, e.failed))
			ob := &Obligation{Name: e.name + "/contract-applies/encoder", Kind: "contract-applies", Func: e.name, Result: "error", Src: "encoder failure: " + e.failed, enc: e}
			if propTouchesFunc(p, pd, e) {
				r.claimed = append(r.claimed, ob)
				r.violations = append(r.violations, ob)
			}
			continue
		}
		for _, ob := range e.obs {
			if !hasProp(ob, pd.ID) {
				continue
			}
			r.generated++
			r.funcs[e.name] = true
			if ob.Kind == "cover" {
				r.covers++
				if !ob.Discharged() {
					r.toolError = "vacuous precondition: " + ob.Name
				}
				continue
			}
			account(ob)
		}
	}
	// static side of the region argument (C04/C05): per-execution types are not reachable from shared memory
	if pd.ID == "C04" || pd.ID == "C05" {
		for _, ob := range regionObligations(p) {
			r.generated++
			r.claimed = append(r.claimed, ob)
			if ob.Discharged() {
				r.discharged++
			} else {
				r.violations = append(r.violations, ob)
			}
		}
	}
	// static side of termination: recursion that no measure bounds (declared with reentry)
	for _, ob := range reentryObligations(p, pd.ID) {
		r.generated++
		account(ob)
	}
	if len(stats.Disagree) > 0 {
		r.toolError = "solver disagreement on: " + strings.Join(stats.Disagree, ", ")
	}
	if len(r.claimed) < pd.Floor {
		ob := &Obligation{Name: pd.ID + "/contract-applies/floor", Kind: "contract-applies", Result: "error",
			Src: fmt.Sprintf("only %d obligations generated for %s, floor is %d (functions or contracts missing)", len(r.claimed), pd.ID, pd.Floor)}
		r.claimed = append(r.claimed, ob)
		r.violations = append(r.violations, ob)
	}
	// vacuity: sampled false-goal checks (hypotheses at the obligation must be satisfiable)
	r.falseGoalChecks(p, pd, tier, seed, opts, stats)
	// violations -> replay files
	for _, ob := range r.violations {
		path, found := writeReplay(p, pd, ob, opts)
		line := fmt.Sprintf("VIOLATION property=%s replay=%s obligation=%s", pd.ID, path, ob.Name)
		if !found {
			line += " no-failing-input-found"
		}
		r.lines = append(r.lines, line)
	}
	return r
}

func propTouchesFunc(p *Prog, pd *PropDef, e *Enc) bool {
	for _, k := range pd.Kinds {
		filter := pd.Funcs
		if i := strings.Index(k, "@"); i >= 0 {
			filter = k[i+1:]
		}
		if filterMatches(p, filter, e.fn) {
			return true
		}
	}
	if e.fc != nil {
		for _, cl := range append(append([]Clause{}, e.fc.Req...), e.fc.Ens...) {
			for _, pr := range cl.Props {
				if pr == pd.ID {
					return true
				}
			}
		}
	}
	return false
}

func (r *checkResult) falseGoalChecks(p *Prog, pd *PropDef, tier string, seed int, opts SolveOpts, stats *SolveStats) {
	var sel []*Obligation
	for _, ob := range r.claimed {
		if ob.enc == nil || ob.Goal == "" {
			continue
		}
		if tier != "thorough" {
			h := fnv.New32a()
			h.Write([]byte(ob.Name))
			if (int(h.Sum32())+seed)%8 != 0 {
				continue
			}
		}
		sel = append(sel, ob)
	}
	type out struct {
		ob  *Obligation
		ans string
	}
	ch := make(chan out, len(sel))
	sem := make(chan struct{}, 16)
	for i, ob := range sel {
		go func(i int, ob *Obligation) {
			sem <- struct{}{}
			defer func() { <-sem }()
			script := ob.Standalone()
			// replace the negated goal by the bare reachability condition
			idx := strings.LastIndex(script, ob.Goal)
			script = script[:idx] + "(assert " + ob.ReachS + ")\n(check-sat)\n"
			tag := fmt.Sprintf("fg%d_%s", i, sanitize(ob.Func))
			if len(tag) > 90 {
				tag = tag[:90]
			}
			o, sec, _ := runSolver(solvers[0], script, 3000, opts.WorkDir, tag, 8*time.Second)
			stats.add(solvers[0].Name, sec)
			a := parseAnswers(o)
			ans := "unknown"
			if len(a) > 0 {
				ans = a[0]
			}
			ch <- out{ob, ans}
		}(i, ob)
	}
	for range sel {
		o := <-ch
		r.falseGoal++
		if o.ans == "unsat" {
			r.vacuous = append(r.vacuous, o.ob.Name)
		}
	}
	sort.Strings(r.vacuous)
}

func writeEvidence(verifDir string, p *Prog, pd *PropDef, r *checkResult, tier string, seed int, stats *SolveStats) {
	os.MkdirAll(filepath.Join(verifDir, "evidence"), 0o755)
	names := func(obs []*Obligation) []string {
		var out []string
		for _, o := range obs {
			out = append(out, o.Name)
		}
		sort.Strings(out)
		return out
	}
	var samples []map[string]any
	step := 1
	if len(r.claimed) > 12 {
		step = len(r.claimed) / 12
	}
	for i := 0; i < len(r.claimed); i += step {
		ob := r.claimed[i]
		samples = append(samples, map[string]any{"name": ob.Name, "kind": ob.Kind, "pos": ob.Pos, "clause": ob.Src, "answer": ob.Result, "solver": ob.Solver, "support": ob.Support})
	}
	var slow []map[string]any
	sorted := append([]*Obligation{}, r.claimed...)
	sort.Slice(sorted, func(i, j int) bool { return sorted[i].Millis > sorted[j].Millis })
	for i := 0; i < len(sorted) && i < 5; i++ {
		slow = append(slow, map[string]any{"name": sorted[i].Name, "ms": sorted[i].Millis})
	}
	var fnames []string
	for f := range r.funcs {
		fnames = append(fnames, f)
	}
	sort.Strings(fnames)
	kinds := map[string]int{}
	support := 0
	for _, ob := range r.claimed {
		kinds[ob.Kind]++
		if ob.Support {
			support++
		}
	}
	trusted := []string{
		"pvc VC generator (/verif/engine): SSA-to-SMT encoding, loop cutting, inferred write sets, inferred (Houdini) loop invariants",
		"golang.org/x/tools go/ssa v0.29.0 (SSA construction), go/types",
		"SMT solvers z3 5.1.0, z3 4.8.12, cvc5 1.0.3 (an obligation counts as discharged when one answers unsat and none answers sat)",
	}
	for name, doc := range externModelDocs {
		trusted = append(trusted, "assumed library contract "+name+": "+doc)
	}
	for name, fc := range p.Contracts.Funcs {
		if fc.Kind == "extern" || fc.Kind == "iface" || fc.Kind == "functype" {
			trusted = append(trusted, fmt.Sprintf("assumed contract (%s) %s", fc.Kind, name))
		}
	}
	sort.Strings(trusted[3:])
	assumptions := append([]string{}, globalAssumptions...)
	assumptions = append(assumptions, pd.Assume...)
	for _, u := range pd.Unmech {
		assumptions = append(assumptions, "not machine-checked (paper step): "+u)
	}
	for _, n := range r.notes {
		assumptions = append(assumptions, "note: "+n)
	}
	ev := Evidence{
		PropertyID: pd.ID, Tier: tier, Seed: seed, Level: "proof",
		Coverage: map[string]any{
			"obligations":            len(r.claimed),
			"discharged":             r.discharged,
			"obligations_generated":  r.generated,
			"support_obligations":    support,
			"by_kind":                kinds,
			"checker_cmd":            fmt.Sprintf("/verif/bin/pvc check %s %s", pd.ID, tier),
			"trusted_base":           trusted,
			"functions_under_contract": fnames,
			"functions_count":        len(fnames),
			"by_backend":             stats.BySolver,
			"solver_seconds":         stats.SolverSec,
			"solver_seconds_note":    "per back end; answers taken from the memo under work/solvecache count with the time the solver needed when they were computed",
			"slowest":                slow,
			"covers_checked":         r.covers,
			"false_goal_checks":      r.falseGoal,
			"vacuous_obligations":    r.vacuous,
			"known_failing":          names(r.known),
			"known_no_longer_failing": r.knownGone,
			"undecided_not_claimed":  names(r.undecided),
			"violations":             names(r.violations),
			"samples":                samples,
			"unmechanised":           pd.Unmech,
			"tree_hash":              treeHash(p.RepoDir),
			"contracts_file":         p.Contracts.Path,
			"contract_lines":         p.Contracts.Lines,
		},
		Assumptions: assumptions,
		WallS:       r.wall,
		Violations:  len(r.violations),
	}
	if len(r.bounded) > 0 {
		var bl []map[string]any
		for _, br := range r.bounded {
			bl = append(bl, map[string]any{"name": br.Def.Name, "label": "bounded: exhaustive up to the stated length only, NOT counted among the discharged obligations",
				"statement": br.Def.Statement, "bound": fmt.Sprintf("%s (maximal length %d)", br.Def.Bound, br.N), "cases": br.Cases, "failures": br.Failures,
				"ran": br.Ran, "seconds": br.Seconds, "failing_inputs": br.Fails})
		}
		ev.Coverage["bounded_checks"] = bl
		ev.Violations += r.boundedViolations
	}
	b, _ := json.MarshalIndent(ev, "", " ")
	tmp := filepath.Join(verifDir, "evidence", pd.ID+".json.tmp")
	os.WriteFile(tmp, b, 0o644)
	os.Rename(tmp, filepath.Join(verifDir, "evidence", pd.ID+".json"))
}

var globalAssumptions = []string{
	"nil dereferences are proof obligations only for pointers that may be nil by origin (see C01); otherwise a dereferenced pointer, an interface a method is called on and a map that is written are assumed non-nil",
	"lengths of strings and slices are below 2^62; integers are mathematical Ints with exact wrap-around for + - * and conversions",
	"calls into other packages do not write this package's memory except through the callbacks and pointer arguments they are given (write sets inferred syntactically)",
	"functions without a contract are abstracted by their inferred write set and an arbitrary result of the declared type",
	"user callbacks (context functions, custom tags/filters/loaders/writers) are external",
	"stack depth and memory exhaustion are not modelled",
	"a pointer-receiver method is not invoked on a nil receiver (same class as nil dereference)",
}
