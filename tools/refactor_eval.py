#!/usr/bin/env python3
"""Runs every check against a scratch copy of /repo with a behaviour-preserving change applied: any VIOLATION is a
false alarm of the machinery. usage: refactor_eval.py <dir with patch.diff> [-j N]"""
import json, os, shutil, subprocess, sys, tempfile
from concurrent.futures import ThreadPoolExecutor
ENV = dict(os.environ, GOFLAGS="-mod=mod", GOPROXY="off", GOSUMDB="off", GOTOOLCHAIN="local")
def sh(cmd, cwd=None, timeout=1800):
    p = subprocess.run(cmd, shell=True, cwd=cwd, env=ENV, stdout=subprocess.PIPE, stderr=subprocess.STDOUT, timeout=timeout)
    return p.returncode, p.stdout.decode(errors="replace")
src = sys.argv[1]
jobs = int(sys.argv[sys.argv.index("-j") + 1]) if "-j" in sys.argv else 4
tmp = tempfile.mkdtemp(prefix="pvcref_")
res = {"dir": src}
try:
    repo = os.path.join(tmp, "repo")
    sh(f"rsync -a --exclude .git /repo/ {repo}/")
    rc, out = sh(f"patch -p1 --no-backup-if-mismatch < {os.path.join(src, 'patch.diff')}", cwd=repo)
    res["applies"] = rc == 0
    rc, out = sh("go build ./... && go test -vet=off -count=1 ./...", cwd=repo)
    res["suite_passes"] = rc == 0
    props = [c["property_id"] for c in json.load(open("/verif/MANIFEST.json"))["checks"]]
    def run(p):
        rc, out = sh(f"/verif/bin/pvc check -repo {repo} {p} quick", cwd="/verif")
        return p, rc, [l.split("obligation=")[1] for l in out.splitlines() if l.startswith("VIOLATION") and "obligation=" in l]
    alarms = {}
    with ThreadPoolExecutor(jobs) as ex:
        for p, rc, viol in ex.map(run, props):
            if rc != 0:
                alarms[p] = viol or [f"exit {rc}"]
    res["alarms"] = alarms
finally:
    shutil.rmtree(tmp, ignore_errors=True)
print(json.dumps(res, indent=1))
