#!/bin/sh
# usage: devcheck.sh <prop> <k> [also...]  -- applies /scratch/out-<prop>/m<k>/patch.diff to a copy of /scratch/devrepo and runs pvc-dev checks
P=$1; k=$2; shift 2
d=$(mktemp -d /scratch/dc_XXXX)
rsync -a /scratch/devrepo/ $d/repo/
(cd $d/repo && patch -p1 -s --no-backup-if-mismatch < /scratch/out-$P/m$k/patch.diff) || { echo "$P m$k: PATCH FAILED"; rm -rf $d; exit; }
res="MISSED"
for pr in $P "$@"; do
  out=$(cd /verif && bin/pvc-dev check -repo $d/repo -out $d/out $pr quick 2>&1)
  v=$(echo "$out" | grep '^VIOLATION' | head -1 | sed 's/.*obligation=//' | cut -c1-150)
  if [ -n "$v" ]; then res="caught[$pr] $v"; break; fi
done
echo "$P m$k: $res"
rm -rf $d
