#!/bin/sh
# usage: seed_store_batch.sh <round-suffixes e.g. "4 5 6"> <prop>...   (stores /scratch/out-<prop>/m<k> as <prop>-agent-m<k>)
ks="$1"; shift
for P in "$@"; do for k in $ks; do
  d=/scratch/out-$P/m$k
  [ -f $d/patch.diff ] || { echo "$P m$k: no patch"; continue; }
  echo "python3 /verif/tools/seed_store.py $P-agent-m$k $P $d"
done; done | xargs -P 4 -I{} sh -c '{} 2>&1 | grep -v WARNING | tail -1'
