#!/usr/bin/env python3
"""Prints the markdown tables of DESIGN.md section 11 from the committed artefacts
(selftest/mutants.json, seeded/*/meta.json, evidence/*.json, known_findings.txt)."""
import json, glob, os, collections
V = "/verif"
print("#### Seeded changes from independent sub-agents (seeded/<id>/)\n")
print("| seed | property | what the change does (first line of the agent's note) | caught by obligation (check, if not the seed's own property) |")
print("|---|---|---|---|")
for d in sorted(glob.glob(V + "/seeded/*/meta.json")):
    m = json.load(open(d))
    note = (m.get("needs_to_manifest") or "").strip().splitlines()
    first = next((l.strip() for l in note if l.strip()), "")[:110].replace("|", "/")
    viol = (m.get("check_result", {}).get("violations") or ["(missed)"])[0]
    viol = viol.replace(" no-failing-input-found", "").replace("|", "\\|")[:110]
    by = m.get("check_result", {}).get("caught_by")
    extra = f" ({by})" if by and by != m["breaks_property"] else ""
    print(f"| {m['id']} | {m['breaks_property']} | {first} | `{viol}`{extra} |")
print("\n#### Must-fail corpus (selftest/mutants.json)\n")
ms = json.load(open(V + "/selftest/mutants.json"))
by = collections.defaultdict(list)
for m in ms:
    by[m["prop"]].append(m)
print("| property | mutants | ids (expected obligation pattern) |")
print("|---|---|---|")
for p in sorted(by):
    ids = "; ".join(f"{m['id']}" for m in by[p])
    print(f"| {p} | {len(by[p])} | {ids} |")
print("\n#### Checks on the current tree (evidence/*.json)\n")
print("| property | level | obligations | discharged | known findings | undecided (not claimed) | functions | solver s |")
print("|---|---|---|---|---|---|---|---|")
for f in sorted(glob.glob(V + "/evidence/*.json")):
    e = json.load(open(f))
    c = e.get("coverage", {}) or {}
    print(f"| {e.get('property_id')} | {e.get('level')} | {c.get('obligations')} | {c.get('discharged')} | {len(c.get('known_failing') or [])} | {len(c.get('undecided_not_claimed') or [])} | {c.get('functions_count')} | {c.get('solver_seconds')} |")
