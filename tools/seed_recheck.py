#!/usr/bin/env python3
"""Re-runs the stored sub-agent seeds against the current checks and updates meta.json's check_result.
usage: seed_recheck.py [-j N] [--missed] [id-substring ...]"""
import json, os, subprocess, sys
from concurrent.futures import ThreadPoolExecutor
args = sys.argv[1:]
jobs = 3
only_missed = False
subs = []
i = 0
while i < len(args):
    if args[i] == "-j":
        jobs = int(args[i + 1]); i += 2; continue
    if args[i] == "--missed":
        only_missed = True; i += 1; continue
    subs.append(args[i]); i += 1
root = "/verif/seeded"
todo = []
for d in sorted(os.listdir(root)):
    mp = os.path.join(root, d, "meta.json")
    if not os.path.exists(mp):
        continue
    m = json.load(open(mp))
    if subs and not any(s in d for s in subs):
        continue
    if only_missed and m.get("check_result", {}).get("caught"):
        continue
    todo.append((d, m))
def run(item):
    d, m = item
    extra = ["--race"] if any("-race" in r for r in m.get("ran", [])) else []
    if m.get("also_check"):
        extra.append("--also=" + ",".join(m["also_check"]))
    out = subprocess.run(["python3", "/verif/tools/seed_eval.py", d, m["breaks_property"], os.path.join(root, d)] + extra,
                         stdout=subprocess.PIPE).stdout.decode()
    try:
        res = json.loads(out)
    except Exception:
        return d, None, out[-300:]
    m["confirmed"] = {k: res.get(k) for k in ("applies", "builds", "suite_passes", "demo_passes_without", "demo_fails_with")}
    m["check_result"] = {"exit": res.get("check_rc"), "caught": res.get("caught"), "violations": res.get("violations"), "caught_by": res.get("caught_by")}
    json.dump(m, open(os.path.join(root, d, "meta.json"), "w"), indent=1)
    return d, res, ""
with ThreadPoolExecutor(jobs) as ex:
    for d, res, err in ex.map(run, todo):
        if res is None:
            print(d, "ERROR", err)
        else:
            ok = all(res.get(k) for k in ("applies", "builds", "suite_passes", "demo_passes_without", "demo_fails_with"))
            print(d, "caught" if res.get("caught") else "MISSED", "valid" if ok else "INVALID", (res.get("violations") or [""])[0][:120])
