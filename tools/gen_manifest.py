#!/usr/bin/env python3
"""Regenerates /verif/MANIFEST.json from tools/props_meta.json (claimed properties) and properties.jsonl."""
import json, subprocess
props = [json.loads(l) for l in open('/verif/properties.jsonl')]
meta = json.load(open('/verif/tools/props_meta.json'))
hooks = subprocess.check_output(['git', '-C', '/repo', 'log', '--format=%H', '--', 'verif_contracts.go']).decode().split()
checks, na = [], []
for p in props:
    pid = p['id']
    m = meta.get(pid)
    if m and m.get('claimed'):
        checks.append({
            "property_id": pid,
            "quick_cmd": f"./check {pid} quick",
            "thorough_cmd": f"./check {pid} thorough",
            "evidence_file": f"/verif/evidence/{pid}.json",
            "replay_cmd_template": "./check --replay {path}",
            "engine": "pvc",
            "level_claimed": {"category": "proof", "text": m['text'], "design_ref": f"DESIGN.md section 5, {pid}"},
            "level_note": m['note'],
            "technique": m.get('technique', "contract-based deductive verification: obligations generated from go/ssa of the working tree with contracts in /repo/verif_contracts.go, discharged by z3/cvc5"),
        })
    else:
        na.append({"property_id": pid, "reason": (m or {}).get('reason', "check not built yet (engine under construction)")})
man = {
    "version": 1,
    "setup_cmd": "cd /verif/engine && GOFLAGS=-mod=mod GOPROXY=off GOSUMDB=off GOTOOLCHAIN=local go build -o /verif/bin/pvc .",
    "hooks": {"guard": "verif", "enable": "-tags verif (pvc loads /repo with this tag; /repo/verif_contracts.go contains comments only)",
              "baseline_off_cmd": "cd /repo && go test -vet=off -count=1 ./...", "source_commits": list(reversed(hooks)), "add_only": True},
    "engines": [{"name": "pvc", "path": "/verif/engine", "serves_properties": [c['property_id'] for c in checks],
                 "kind_free_text": "home-grown VC generator over go/ssa (x/tools v0.29.0); contracts in /repo/verif_contracts.go; obligations discharged by z3 5.1.0 / z3 4.8.12 / cvc5 1.0.3; replay through go test -overlay"}],
    "checks": checks,
    "notes": "see DESIGN.md; known findings in known_findings.txt; obligations the tool cannot decide are listed in undecided.txt and are not claimed",
    "not_applicable": na,
}
json.dump(man, open('/verif/MANIFEST.json', 'w'), indent=1)
print("claimed:", [c['property_id'] for c in checks])
