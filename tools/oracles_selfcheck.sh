#!/bin/sh
# Runs every property-level replay oracle (/verif/oracles/oracles_test.go.txt) against a tree (default /repo):
# on the unchanged tree all of them must be silent. usage: oracles_selfcheck.sh [repo-dir]
export GOFLAGS=-mod=mod GOPROXY=off GOSUMDB=off GOTOOLCHAIN=local
repo=${1:-/repo}
d=$(mktemp -d)
cp /verif/oracles/oracles_test.go.txt $d/zz_pvc_oracle_test.go
{
  echo 'func TestPvcOracles(t *testing.T) {'
  grep -o '^func zzOracleC[0-9][0-9]' /verif/oracles/oracles_test.go.txt | sed 's/^func //' | while read f; do
    echo "	zoReported = 0; fmt.Println(\"== $f\"); $f()"
  done
  echo '}'
} >> $d/zz_pvc_oracle_test.go
echo "{\"Replace\":{\"$repo/zz_pvc_oracle_test.go\":\"$d/zz_pvc_oracle_test.go\"}}" > $d/ov.json
(cd $repo && go test -overlay $d/ov.json -vet=off -count=1 -timeout 300s -run '^TestPvcOracles$' -v . 2>&1 | grep -v '^=== RUN\|^--- PASS\|^PASS$')
rm -rf $d
