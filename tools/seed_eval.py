#!/usr/bin/env python3
"""Evaluate a mutation produced by a sub-agent: confirm (in a scratch copy of /repo) that it applies, builds,
passes the baseline suite, that its demo fails with it and passes without it; then run the property's check
against the mutated copy. usage: seed_eval.py <seed-id> <prop> <dir with patch.diff, demo_test.go, notes.txt> [--race]"""
import json, os, re, shutil, subprocess, sys, tempfile
ENV = dict(os.environ, GOFLAGS="-mod=mod", GOPROXY="off", GOSUMDB="off", GOTOOLCHAIN="local")
def sh(cmd, cwd=None, timeout=900):
    p = subprocess.run(cmd, shell=True, cwd=cwd, env=ENV, stdout=subprocess.PIPE, stderr=subprocess.STDOUT, timeout=timeout)
    return p.returncode, p.stdout.decode(errors="replace")
sid, prop, src = sys.argv[1], sys.argv[2], sys.argv[3]
race = "--race" in sys.argv
tmp = tempfile.mkdtemp(prefix="pvcseed_")
res = {"id": sid, "property": prop}
try:
    repo = os.path.join(tmp, "repo")
    sh(f"rsync -a --exclude .git /repo/ {repo}/")
    demo = open(os.path.join(src, "demo_test.go")).read()
    tname = re.search(r"func (Test\w+)\(", demo).group(1)
    flags = "-race " if race else ""
    # demo on the unmodified tree
    shutil.copy(os.path.join(src, "demo_test.go"), os.path.join(repo, "zz_demo_test.go"))
    rc0, out0 = sh(f"go test -vet=off -count=1 {flags}-run '^{tname}$' .", cwd=repo)
    res["demo_passes_without"] = rc0 == 0
    os.remove(os.path.join(repo, "zz_demo_test.go"))
    rc, out = sh(f"patch -p1 --no-backup-if-mismatch < {os.path.join(src, 'patch.diff')}", cwd=repo)
    res["applies"] = rc == 0
    if rc != 0:
        res["apply_output"] = out[-500:]
    rc, out = sh("go build ./...", cwd=repo)
    res["builds"] = rc == 0
    rc, out = sh("go test -vet=off -count=1 ./...", cwd=repo)
    res["suite_passes"] = rc == 0
    shutil.copy(os.path.join(src, "demo_test.go"), os.path.join(repo, "zz_demo_test.go"))
    rc1, out1 = sh(f"go test -vet=off -count=1 {flags}-run '^{tname}$' .", cwd=repo)
    res["demo_fails_with"] = rc1 != 0
    os.remove(os.path.join(repo, "zz_demo_test.go"))
    # the check of the property the seed was written against, then (only if that one is silent) the checks of
    # the neighbouring properties named with --also=Cxx,Cyy
    also = [a.split("=")[1].split(",") for a in sys.argv if a.startswith("--also=")]
    props = [prop] + (also[0] if also else [])
    res["caught"] = False
    for pr in props:
        rc, out = sh(f"/verif/bin/pvc check -repo {repo} {pr} quick", cwd="/verif")
        viol = [l for l in out.splitlines() if l.startswith("VIOLATION")]
        if pr == prop or (rc == 1 and viol):
            res["check_rc"] = rc
            res["violations"] = [l.split("obligation=")[1] if "obligation=" in l else l for l in viol][:8]
            res["caught_by"] = pr
        if rc == 1 and len(viol) > 0:
            res["caught"] = True
            break
        if rc not in (0, 1):
            res["check_output"] = out[-600:]
finally:
    shutil.rmtree(tmp, ignore_errors=True)
print(json.dumps(res, indent=1))
