#!/bin/sh
# runs the quick check of every claimed property and prints one line each
cd /verif
for p in $(python3 -c "import json;print(' '.join(c['property_id'] for c in json.load(open('MANIFEST.json'))['checks']))"); do
  out=$(./check $p ${1:-quick} 2>&1); rc=$?
  echo "$p rc=$rc $(echo "$out" | grep -c '^VIOLATION') violations; $(echo "$out" | tail -1 | cut -c1-160)"
done
