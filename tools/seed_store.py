#!/usr/bin/env python3
"""Stores an evaluated sub-agent mutation under /verif/seeded/<id>/ (patch.diff, demo_test.go, notes.txt, meta.json)."""
import json, os, shutil, subprocess, sys
sid, prop, src = sys.argv[1], sys.argv[2], sys.argv[3]
extra = sys.argv[4:]
out = subprocess.run(["python3", "/verif/tools/seed_eval.py", sid, prop, src] + extra, stdout=subprocess.PIPE).stdout.decode()
res = json.loads(out)
dst = f"/verif/seeded/{sid}"
os.makedirs(dst, exist_ok=True)
for f in ("patch.diff", "demo_test.go", "notes.txt"):
    if os.path.exists(os.path.join(src, f)):
        shutil.copy(os.path.join(src, f), os.path.join(dst, f))
notes = open(os.path.join(src, "notes.txt")).read() if os.path.exists(os.path.join(src, "notes.txt")) else ""
meta = {
    "id": sid, "breaks_property": prop, "origin": "independent sub-agent given only the property text and a scratch worktree",
    "needs_to_manifest": notes[:1500],
    "confirmed": {k: res.get(k) for k in ("applies", "builds", "suite_passes", "demo_passes_without", "demo_fails_with")},
    "ran": [f"patch -p1 < patch.diff (scratch copy of /repo)", "go build ./...", "go test -vet=off -count=1 ./...",
            "go test -run <demo> (with and without the change)" + (" -race" if "--race" in extra else ""), f"/verif/bin/pvc check -repo <copy> {prop} quick"],
    "check_result": {"exit": res.get("check_rc"), "caught": res.get("caught"), "violations": res.get("violations")},
}
json.dump(meta, open(os.path.join(dst, "meta.json"), "w"), indent=1)
print(sid, "caught" if res.get("caught") else "MISSED", "valid" if all(meta["confirmed"].values()) else "INVALID", (res.get("violations") or [""])[0][:100])
