#!/usr/bin/env python3
"""Rewrites section 11.6 of DESIGN.md from the committed artefacts (tools/design_tables.py)."""
import subprocess, re
p = '/verif/DESIGN.md'
s = open(p).read()
i = s.index("### 11.6 Which check catches which change\n")
j = s.index("### 11.7 Assumptions left unchecked")
tables = subprocess.check_output(["python3", "/verif/tools/design_tables.py"]).decode()
import json, glob
n = len(glob.glob('/verif/seeded/*/meta.json'))
caught = sum(1 for f in glob.glob('/verif/seeded/*/meta.json') if json.load(open(f)).get('check_result', {}).get('caught'))
replayed = 0
for f in glob.glob('/verif/seeded/*/meta.json'):
    cr = json.load(open(f)).get('check_result', {})
    if cr.get('caught') and any('no-failing-input-found' not in v for v in (cr.get('violations') or [])):
        replayed += 1
nm = len(json.load(open('/verif/selftest/mutants.json')))
tail = f"""
{caught} of the {n} sub-agent changes (eight rounds) and all {nm} mutants of the must-fail corpus are reported by
the check of their property, or - for the few changes that were written against one property and break a
neighbouring one - by the check named in brackets (`selftest/run.py` and `tools/seed_recheck.py` apply each
change to a scratch copy, require build + unedited suite to pass, run the check against the copy and require a
VIOLATION). For {replayed} of the sub-agent changes the VIOLATION carries a failing input reproduced on the real
code (replay case, panic catalogue, property oracle or bounded check); the others end in
`no-failing-input-found`. Mutants that the existing tests already kill are marked `fails_tests` and kept only
as engine canaries.

"""
s = s[:i] + "### 11.6 Which check catches which change\n\n" + tables + tail + s[j:]
open(p, 'w').write(s)
print(n, caught, replayed, nm)
