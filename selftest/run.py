#!/usr/bin/env python3
"""Must-fail corpus: apply each mutant to a scratch copy of /repo, check it still builds and passes the
baseline tests, run the property's check against the copy and require a VIOLATION of the named obligation.
usage: run.py [-k substring] [--no-tests]"""
import json, os, re, shutil, subprocess, sys, tempfile

ENV = dict(os.environ, GOFLAGS="-mod=mod", GOPROXY="off", GOSUMDB="off", GOTOOLCHAIN="local")
HERE = os.path.dirname(os.path.abspath(__file__))

def sh(cmd, cwd=None, timeout=900):
    p = subprocess.run(cmd, shell=True, cwd=cwd, env=ENV, stdout=subprocess.PIPE, stderr=subprocess.STDOUT, timeout=timeout)
    return p.returncode, p.stdout.decode(errors="replace")

def main():
    args = sys.argv[1:]
    key = None
    notests = "--no-tests" in args
    if "-k" in args:
        key = args[args.index("-k") + 1]
    mutants = json.load(open(os.path.join(HERE, "mutants.json")))
    ok = bad = 0
    # one snapshot of /repo for the whole run, so that the corpus is judged against one tree
    snap = tempfile.mkdtemp(prefix="pvcsnap_")
    sh(f"rsync -a --exclude .git /repo/ {snap}/repo/")
    jobs = 4
    if "-j" in args:
        jobs = int(args[args.index("-j") + 1])
    def one(m):
        tmp = tempfile.mkdtemp(prefix="pvcmut_")
        try:
            repo = os.path.join(tmp, "repo")
            sh(f"rsync -a {snap}/repo/ {repo}/")
            path = os.path.join(repo, m["file"])
            src = open(path).read()
            if m["old"] not in src:
                return False, f"SKIP {m['id']}: pattern not found in {m['file']}"
            src = src.replace(m["old"], m["new"], 1)
            if m.get("needs_import"):
                _, a, b = m["needs_import"]
                src = src.replace(a, b, 1)
            open(path, "w").write(src)
            rc, out = sh("go build ./...", cwd=repo)
            if rc != 0:
                return False, f"INVALID {m['id']}: does not build\n{out[-400:]}"
            if not notests and not m.get("fails_tests"):
                rc, out = sh("go test -vet=off -count=1 ./...", cwd=repo)
                if rc != 0:
                    return False, f"INVALID {m['id']}: baseline tests fail with the mutant"
            rc, out = sh(f"/verif/bin/pvc check -repo {repo} {m['prop']} quick", cwd="/verif")
            viol = [l for l in out.splitlines() if l.startswith("VIOLATION")]
            hit = [l for l in viol if re.search(m["expect"], l)]
            if rc == 1 and hit:
                tag = "" if "no-failing-input-found" in hit[0] else " (replayed)"
                return True, f"CAUGHT {m['id']}: {m['prop']} {hit[0].split('obligation=')[1][:120]}{tag}"
            msg = f"MISSED {m['id']}: rc={rc} violations={len(viol)} expected /{m['expect']}/"
            for l in viol[:5]:
                msg += "\n    " + l[:200]
            if rc not in (0, 1):
                msg += "\n" + out[-600:]
            return False, msg
        finally:
            shutil.rmtree(tmp, ignore_errors=True)
    from concurrent.futures import ThreadPoolExecutor
    todo = [m for m in mutants if not key or key in m["id"]]
    with ThreadPoolExecutor(jobs) as ex:
        for good, msg in ex.map(one, todo):
            print(msg, flush=True)
            if good:
                ok += 1
            else:
                bad += 1
    shutil.rmtree(snap, ignore_errors=True)
    print(f"selftest: {ok} caught, {bad} not")
    sys.exit(0 if bad == 0 else 1)

if __name__ == "__main__":
    main()
